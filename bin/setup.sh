#!/bin/sh
# Build the analysis environment offline: an overlay venv of /venv with crosshair-tool (+z3) from the wheelhouse.
# Idempotent; safe to call from every check.
set -e
V=/verif/.venv
if [ -x "$V/bin/python" ] && "$V/bin/python" -c "import crosshair, z3, xsdata" 2>/dev/null; then
  exit 0
fi
rm -rf "$V"
/venv/bin/python -m venv "$V"
SP=$("$V/bin/python" -c "import sysconfig; print(sysconfig.get_paths()['purelib'])")
printf '%s\n' "import site; site.addsitedir('/venv/lib/python3.12/site-packages')" > "$SP/xsv_overlay.pth"
PIP_NO_INDEX=1 "$V/bin/python" -m pip install -q --no-index --find-links /opt/veriftools/wheels crosshair-tool z3-solver >/dev/null
"$V/bin/python" -c "import crosshair, z3, xsdata; print('setup ok', crosshair.__version__, z3.get_version_string())"
