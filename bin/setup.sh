#!/bin/sh
# Build the analysis environment offline: an overlay venv of /venv with crosshair-tool (+z3) from the wheelhouse.
# Idempotent; every check calls it.  The venv lives next to this checkout (<verif>/.venv), so a snapshot builds its own.
set -e
HERE=$(cd "$(dirname "$0")/.." && pwd)
V="$HERE/.venv"
if [ -x "$V/bin/python" ] && "$V/bin/python" -c "import crosshair, z3, xsdata" 2>/dev/null; then
  exit 0
fi
# another check may be building it right now: serialise on a lock directory
LOCK="$HERE/.venv.lock"
i=0
while ! mkdir "$LOCK" 2>/dev/null; do
  i=$((i+1)); [ $i -gt 300 ] && break
  sleep 1
  if [ -x "$V/bin/python" ] && "$V/bin/python" -c "import crosshair, z3, xsdata" 2>/dev/null; then exit 0; fi
done
trap 'rmdir "$LOCK" 2>/dev/null || true' EXIT
if [ -x "$V/bin/python" ] && "$V/bin/python" -c "import crosshair, z3, xsdata" 2>/dev/null; then
  exit 0
fi
rm -rf "$V"
/venv/bin/python -m venv "$V"
SP=$("$V/bin/python" -c "import sysconfig; print(sysconfig.get_paths()['purelib'])")
printf '%s\n' "import site; site.addsitedir('/venv/lib/python3.12/site-packages')" > "$SP/xsv_overlay.pth"
PIP_NO_INDEX=1 "$V/bin/python" -m pip install -q --no-index --find-links /opt/veriftools/wheels crosshair-tool z3-solver >/dev/null
"$V/bin/python" -c "import crosshair, z3, xsdata; print('setup ok', crosshair.__version__, z3.get_version_string())"
