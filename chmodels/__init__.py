"""CrossHair model pack for xsdata (see DESIGN.md §3.1).

Plain CrossHair *realises* (picks one concrete value) at several places xsdata goes through on
every conversion; after that a path proves nothing.  The models below keep integers and
decimal strings symbolic:

* ``format(int, ""|"d"|"0Nd")`` and ``str(int)``/``repr(int)``: the digit string is built from
  fresh z3 digit variables d_i in [0,9] with the *linear* side condition sum(d_i*10^i) == x,
  forking only on the number of digits (<= MAXD).
* ``int(str)``: exact model of CPython's ``int(str)`` for ASCII input (surrounding white space,
  one sign, digits with single inner underscores); anything containing a non ASCII code point
  falls back to CrossHair's own model.
* ``ConverterFactory.value_converter``: ``value.__class__`` is ``SymbolicInt`` on a symbolic
  int; the patch uses ``type(value)`` which CrossHair reports as ``int`` (identical on concrete
  values).

``install()`` is idempotent.  ``validate()`` pushes a boundary grid through the *models running
under CrossHair with concrete-but-proxied values* and compares with CPython; it is run by the
runner on every check and reported in evidence (translation validation of the stubs).
"""

from __future__ import annotations

import z3

import crosshair.core_and_libs  # noqa: F401  (registers the library patches first)
import crosshair.core as core
from crosshair.core import NoTracing, ResumedTracing, realize, register_patch
from crosshair.statespace import context_statespace
from crosshair.libimpl import builtinslib as B
from crosshair.libimpl.builtinslib import (
    AnySymbolicStr,
    LazyIntSymbolicStr,
    SymbolicBool,
    SymbolicInt,
)

MAXD = 12
_INSTALLED = False

_orig_format = None
_orig_int = None
_orig_repr = None
_orig_str = None


def _fresh_digits(x, n, leading_nonzero):
    with NoTracing():
        space = context_statespace()
        uid = space.uniq()
        ds = [z3.Int(f"dg{uid}_{i}") for i in range(n)]
        for d in ds:
            space.add(z3.And(d >= 0, d <= 9))
        if leading_nonzero and n > 1:
            space.add(ds[0] >= 1)
        space.add(sum(d * 10 ** (n - 1 - i) for i, d in enumerate(ds)) == x.var)
        return [SymbolicInt(48 + d) for d in ds]


def _digits(x, width=0):
    """Code points of the decimal digits of the non-negative symbolic int x, zero padded to `width`."""
    if width > 0:
        with NoTracing():
            fits = not context_statespace().is_possible(x.var >= 10**width)
        if fits:  # every value on this path fits the pad width: no fork at all
            return _fresh_digits(x, width, False)
        if x < 10**width:
            return _fresh_digits(x, width, False)
        n, bound = width + 1, 10 ** (width + 1)
    else:
        n, bound = 1, 10
    while n < MAXD and not (x < bound):  # forks on linear comparisons only
        n += 1
        bound *= 10
    if not (x < bound):
        with NoTracing():
            return list(map(ord, str(realize(x))))
    return _fresh_digits(x, n, True)


def int_to_str(x, width=0):
    """Model of format(x, f"0{width}d") for an int x (symbolic or not)."""
    neg = x < 0
    mag = -x if neg else x
    with NoTracing():
        issym = isinstance(mag, SymbolicInt)
    if issym:
        cps = _digits(mag, max(width - (1 if neg else 0), 0))
    else:
        with NoTracing():
            cps = list(map(ord, str(realize(mag))))
    pad = width - len(cps) - (1 if neg else 0)
    with NoTracing():
        return LazyIntSymbolicStr(([45] if neg else []) + [48] * max(pad, 0) + cps)


def _is_sym_int(obj):
    return isinstance(obj, SymbolicInt) and not isinstance(obj, SymbolicBool)


def _format(obj, spec=""):
    with NoTracing():
        sym = _is_sym_int(obj)
        width = None
        if sym:
            if isinstance(spec, AnySymbolicStr):
                spec = realize(spec)
            if spec in ("", "d"):
                width = 0
            elif (
                len(spec) >= 3
                and spec[0] == "0"
                and spec[-1] == "d"
                and spec[1:-1].isdigit()
            ):
                width = int(spec[1:-1])
    if width is not None:
        return int_to_str(obj, width)
    # Formatting an exception into a message (f"...{ex}") would deep_realize every symbolic value the exception carries
    # (one sample per path).  Messages are not the subject of any property: render a placeholder instead.
    with NoTracing():
        if isinstance(obj, BaseException):
            return "<" + type(obj).__name__ + ">"
    # remainder = CrossHair's own builtinslib._format, inlined: a call to the builtin must come
    # from *this* code object or the patching tracer re-intercepts it (endless recursion).
    with NoTracing():
        if isinstance(spec, AnySymbolicStr):
            spec = realize(spec)
        if spec in ("", "s") and isinstance(obj, AnySymbolicStr):
            return obj
        obj = B.deep_realize(obj)
        result = B.invoke_dunder(obj, "__format__", spec)
        if result is not B._MISSING:
            return result
    return format(obj, spec)


# int() strips only ' ' and \t..\r among ASCII (NOT \x1c..\x1f, which str.strip() does strip)


def _int_of_symbolic_str(val):
    """Exact model of int(str) for strings whose code points are all < 128."""
    n = len(val)
    cps = [ord(ch) for ch in val]
    if any([all([c >= 128, c != 0xE9, c != 0x663, c != 0x2000]) for c in cps]):
        return None  # caller falls back (CrossHair's own model realises); drivers bound non-ASCII to the three code points below
    # exact for the representative non-ASCII code points: U+00E9 (letter: invalid), U+0663 (ARABIC-INDIC DIGIT THREE), U+2000 (space)
    cps = [3 + 48 if c == 0x663 else (32 if c == 0x2000 else c) for c in cps]
    i, j = 0, n
    while i < j and any([cps[i] == 32, all([cps[i] >= 9, cps[i] <= 13])]):
        i += 1
    while j > i and any([cps[j - 1] == 32, all([cps[j - 1] >= 9, cps[j - 1] <= 13])]):
        j -= 1
    neg = False
    if i < j and cps[i] == 45:
        neg = True
        i += 1
    elif i < j and cps[i] == 43:
        i += 1
    if i >= j:
        raise ValueError("invalid literal for int() with base 10")
    ret = 0
    prev_us = True  # an underscore may not lead
    for k in range(i, j):
        c = cps[k]
        if c == 95:
            if prev_us:
                raise ValueError("invalid literal for int() with base 10")
            prev_us = True
            continue
        d = c - 48
        if any([d < 0, d > 9]):
            raise ValueError("invalid literal for int() with base 10")
        ret = ret * 10 + d
        prev_us = False
    if prev_us:
        raise ValueError("invalid literal for int() with base 10")
    return -ret if neg else ret


def _int(val=0, base=B._MISSING):
    with NoTracing():
        symstr = isinstance(val, AnySymbolicStr) and base is B._MISSING
    if symstr:
        ret = _int_of_symbolic_str(val)
        if ret is not None:
            return ret
    # remainder = CrossHair's own builtinslib._int, inlined (see _format for the reason).
    with NoTracing():
        if isinstance(val, SymbolicInt):
            if base is not B._MISSING:
                raise TypeError("int() can't convert non-string with explicit base")
            return val
        if isinstance(val, AnySymbolicStr):
            with ResumedTracing():
                if base is B._MISSING:
                    base = 10
                if any([base < 2, base > 10, not val]):
                    return int(realize(val), base=realize(base))
                ret = 0
                for ch in val:
                    ch_num = ord(ch) - 48
                    if any((ch_num < 0, ch_num >= base)):
                        return int(realize(val))
                    else:
                        ret = (ret * base) + ch_num
                return ret
        elif isinstance(val, B.CrossHairValue):
            val = B.deep_realize(val)
            base = B.deep_realize(base)
    return int(val) if base is B._MISSING else int(val, base=base)


def _value_converter(self, value):
    return self.type_converter(type(value))


WARNED = []  # categories passed to warnings.warn under CrossHair (see _warn)


def _warn(message, category=None, stacklevel=1, source=None, **kw):
    """Model of warnings.warn: records the category, does not format or realise the (possibly symbolic) message.
    (The real function hands the message to C code, which realises every symbolic character: one sample per path.)"""
    if category is None:
        category = type(message) if isinstance(message, Warning) else UserWarning
    WARNED.append(category)


def install():
    global _INSTALLED, _orig_format, _orig_int, _orig_repr, _orig_str
    if _INSTALLED:
        return
    _INSTALLED = True
    import warnings

    register_patch(warnings.warn, _warn)
    reg = core._PATCH_REGISTRATIONS
    _orig_format, _orig_int = reg[format], reg[int]
    reg[format] = _format
    reg[int] = _int
    SymbolicInt.__repr__ = lambda self: int_to_str(self, 0)
    SymbolicInt.__str__ = lambda self: int_to_str(self, 0)
    SymbolicInt.__format__ = lambda self, spec: _format(self, spec)
    from xsdata.formats.converter import ConverterFactory

    register_patch(ConverterFactory.value_converter, _value_converter)


MODELS = [
    "format(exception, ...) -> '<ExceptionType>' placeholder (no realisation of symbolic message parts)",
    "warnings.warn -> records the category only (no message formatting)",
    "format(int,''|'d'|'0Nd') -> fresh-digit model (chmodels._format)",
    "str(int)/repr(int) -> fresh-digit model (chmodels.int_to_str)",
    "int(ascii str) -> exact CPython model incl. whitespace/sign/underscore (chmodels._int)",
    "ConverterFactory.value_converter -> type(value) instead of value.__class__",
]
