"""C01 - XML round trip through the SAX seam (DESIGN.md §5 C01)."""

from __future__ import annotations

from harness import seam
from harness.common import PART, deep_eq, known, result
from harness.specs import NS_MAPS, SPECS
from vlib.jobs import Job

from xsdata.formats.dataclass.context import XmlContext
from xsdata.formats.dataclass.serializers.config import SerializerConfig

META = {
    "functions": [
        "xsdata.formats.dataclass.serializers.mixins:EventGenerator.generate", "xsdata.formats.dataclass.serializers.mixins:EventGenerator.convert_dataclass",
        "xsdata.formats.dataclass.serializers.mixins:EventGenerator.convert_value", "xsdata.formats.dataclass.serializers.mixins:EventGenerator.next_value",
        "xsdata.formats.dataclass.serializers.mixins:EventGenerator.next_attribute", "xsdata.formats.dataclass.serializers.mixins:EventGenerator.encode_primitive",
        "xsdata.formats.dataclass.serializers.mixins:EventHandler.write", "xsdata.formats.dataclass.serializers.mixins:EventHandler.start_tag",
        "xsdata.formats.dataclass.serializers.mixins:EventHandler.flush_start", "xsdata.formats.dataclass.serializers.mixins:EventHandler.start_namespaces",
        "xsdata.formats.dataclass.serializers.mixins:EventHandler.reset_default_namespace", "xsdata.formats.dataclass.serializers.mixins:EventHandler.add_attribute",
        "xsdata.formats.dataclass.serializers.mixins:EventHandler.set_data", "xsdata.formats.dataclass.serializers.mixins:EventHandler.end_tag",
        "xsdata.formats.dataclass.serializers.mixins:EventHandler.encode_data",
        "xsdata.formats.dataclass.serializers.writers.native:XmlEventWriter.start_tag", "xsdata.formats.dataclass.serializers.writers.native:XmlEventWriter.end_tag",
        "xsdata.formats.dataclass.parsers.handlers.native:XmlEventHandler.process_context", "xsdata.formats.dataclass.parsers.handlers.native:XmlEventHandler.merge_parent_namespaces",
        "xsdata.formats.dataclass.parsers.handlers.lxml:LxmlEventHandler.process_context",
        "xsdata.formats.dataclass.parsers.bases:NodeParser.parse", "xsdata.formats.dataclass.parsers.bases:NodeParser.start", "xsdata.formats.dataclass.parsers.bases:NodeParser.end",
        "xsdata.formats.dataclass.parsers.nodes.element:ElementNode.bind", "xsdata.formats.dataclass.parsers.nodes.element:ElementNode.child",
        "xsdata.formats.dataclass.parsers.nodes.element:ElementNode.bind_attrs", "xsdata.formats.dataclass.parsers.nodes.element:ElementNode.bind_objects",
        "xsdata.formats.dataclass.parsers.nodes.primitive:PrimitiveNode.bind", "xsdata.formats.dataclass.parsers.nodes.standard:StandardNode.bind",
        "xsdata.formats.dataclass.parsers.nodes.union:UnionNode.bind", "xsdata.formats.dataclass.parsers.nodes.wildcard:WildcardNode.bind",
        "xsdata.formats.dataclass.parsers.nodes.wrapper:WrapperNode.bind",
        "xsdata.formats.dataclass.parsers.utils:ParserUtils.parse_value", "xsdata.formats.dataclass.parsers.utils:ParserUtils.parse_var", "xsdata.formats.dataclass.parsers.utils:ParserUtils.xsi_type",
        "xsdata.formats.dataclass.context:XmlContext.build", "xsdata.formats.dataclass.context:XmlContext.fetch",
        "xsdata.utils.namespaces:generate_prefix", "xsdata.utils.namespaces:load_prefix", "xsdata.utils.namespaces:clean_prefixes",
    ],
    "bounds": [
        "writer_text / writer_attr (value-symbolic): XmlEventWriter.set_characters and add_attribute + flush_start with xml.sax.saxutils' escape / quoteattr executed on a symbolic string of <= 2 (text; thorough 3) / 1 (attribute; thorough tier only) "
        "arbitrary XML 1.0 characters into a Python sink; what an XML 1.0 processor reads back (entity references, line-end and attribute-value normalisation, Char production: textpath.read_chardata) must be the string",
        "real_text: strings of 1-2 code points from 29 class representatives at 10 places through both real writers and both real handlers (selector driven, concrete runs)",
        "model pool harness/models.py (32 classes), instance builders harness/specs.py: per builder one or two value-symbolic focus fields "
        "(first int |x| < 10**5, second int -10 < x < 100 - full int lexical range is C05's job -, str <= 2 code points, bool) and selectors into concrete pools for the rest",
        "configurations: writer x handler x 8 user prefix maps x indent x ignore_default_attributes, expanded by the runner into partitions "
        "(quick: a covering subset; thorough: the full product for every builder)",
    ],
    "outside": [
        "the text layer: escaping/quoting, encodings, XML declaration, entity/CDATA handling, XML 1.0 Char validity (XMLGenerator/lxml/expat/libxml2 are C or I/O behind the seam)",
        "etree.indent of the lxml writer (C, after the SAX stream): indent is only explored for the native writer",
        "models outside the pool; strings longer than the bound",
        "instances that are not representable: None for an element with a non-None default, wildcard content violating the field's namespace constraint, empty tokens",
    ],
    "stubs": ["SAX seam (harness/seam.py): recorder ContentHandler + iterparse-contract element stubs; validated every run against the real text path on a concrete corpus",
              "CrossHair model pack (chmodels)",
              "XmlContext.get_subclasses(object) iterates the model pool instead of every class loaded in the interpreter (environment)",
              "one XmlContext with the pool's metadata pre-built concretely is shared by all paths of a job"],
    "assumptions": ["XMLGenerator/lxml and expat/libxml2 implement the SAX / iterparse contracts the seam encodes (checked on the validation corpus)"],
}

SLEN = PART.get("slen", 2)
IMAX = PART.get("imax", 10**5)
_SPEC = SPECS.get(PART.get("spec", "basic_int"))
K = _SPEC.K if _SPEC else (1, 1, 1)


_CTX = {}


def _context(cls=None):
    """One XmlContext per job with the metadata of the job's root class pre-built concretely at first use.

    Only the builder's own root class is built (recursively, i.e. exactly what a fresh context would build for it): building
    other pool classes first would let the class-keyed metadata cache carry a foreign parent namespace into it, which is
    C14's subject, not this property's."""
    cls = cls or (_SPEC.cls if _SPEC else None)
    if cls not in _CTX:
        import contextlib

        try:
            from crosshair.tracers import NoTracing, is_tracing

            guard = NoTracing() if is_tracing() else contextlib.nullcontext()
        except Exception:  # noqa: BLE001
            guard = contextlib.nullcontext()
        with guard:
            from harness import models

            seam.stub_loaded_classes(models.ALL_MODELS)
            c = XmlContext()
            if cls is not None:
                c.build_recursive(cls)
            _CTX[cls] = c
    return _CTX[cls]


def _valid(i0, i1, s0, s1, b0, k0, k1, k2):
    if _SPEC.valid is None:
        return True
    return _SPEC.valid(i0, i1, s0, s1, b0, k0, k1, k2)


def rt(i0: int, i1: int, s0: str, s1: str, b0: bool, k0: int, k1: int, k2: int) -> bool:
    """
    pre: -IMAX < i0 < IMAX
    pre: -10 < i1 < 100
    pre: len(s0) <= SLEN
    pre: len(s1) <= SLEN
    pre: 0 <= k0 < K[0]
    pre: 0 <= k1 < K[1]
    pre: 0 <= k2 < K[2]
    pre: _valid(i0, i1, s0, s1, b0, k0, k1, k2)
    post: _
    """
    return _rt(PART, i0, i1, s0, s1, b0, k0, k1, k2)


def _rt(part, i0, i1, s0, s1, b0, k0, k1, k2):
    spec = SPECS[part["spec"]]
    obj = spec.build(i0, i1, s0, s1, b0, k0, k1, k2)
    ns_map = NS_MAPS[part.get("ns", 0)]
    cfg = SerializerConfig(indent="  " if part.get("indent") else None, ignore_default_attributes=bool(part.get("ida")))
    ctx = _context(spec.cls)
    calls = seam.to_sax(obj, part.get("writer", "native"), cfg, dict(ns_map) if ns_map else None, ctx)
    problems = seam.monitor(calls, part.get("writer", "native") == "native")
    if problems:
        return result(False)
    back = seam.parse_context(seam.sax_to_context(calls), spec.cls, part.get("handler", "native"), None, ctx)
    return result(deep_eq(back, obj))


def explain_rt(i0, i1, s0, s1, b0, k0, k1, k2):
    """Public-API replay: XmlSerializer.render -> XmlParser.from_string with the real writer/handler."""
    from xsdata.formats.dataclass.parsers import XmlParser
    from xsdata.formats.dataclass.serializers import XmlSerializer

    part = PART
    spec = SPECS[part["spec"]]
    obj = spec.build(i0, i1, s0, s1, b0, k0, k1, k2)
    ns_map = NS_MAPS[part.get("ns", 0)]
    cfg = SerializerConfig(indent="  " if part.get("indent") else None, ignore_default_attributes=bool(part.get("ida")), xml_declaration=False)
    out = {"object": repr(obj)}
    try:
        text = XmlSerializer(config=cfg, writer=seam.REAL_WRITERS[part.get("writer", "native")]).render(obj, ns_map=dict(ns_map) if ns_map else None)
        out["xml"] = text
        back = XmlParser(handler=seam.HANDLERS[part.get("handler", "native")]).from_string(text, spec.cls)
        out["parsed"] = repr(back)
        out["text_level_equal"] = back == obj
    except Exception as e:  # noqa: BLE001
        out["text_level_exception"] = repr(e)
    return out


PRE = {}
EXPLAIN = {"rt": explain_rt}

# covering subset of configurations for the quick tier: (writer, handler, ns, indent, ida)
_QUICK_CFG = [
    ("native", "native", 0, 0, 0), ("lxml", "lxml", 1, 0, 0), ("native", "lxml", 2, 1, 0), ("lxml", "native", 3, 0, 1),
    ("native", "native", 4, 0, 1), ("native", "lxml", 5, 0, 0), ("lxml", "lxml", 6, 0, 0), ("native", "native", 7, 1, 1),
]
_QUICK_SPECS = ["basic_int", "basic_str", "textattr", "textstr", "reqtext", "lists_int", "lists_str", "frozen", "nillable", "nilparent", "parenta",
                "unqualified", "sequential", "wrapped", "unions_int", "unions_str", "enums", "qnames", "compound", "compound_single", "holder",
                "derived_root", "wild_text", "wild_attrs", "anytyped", "defaults", "temporal", "formats", "tokenlists", "parentb", "nsattr", "derivedb", "dup", "unionmodels", "nsattrparent", "family", "renamed"]


# ---------------------------------------------------------------------------------------------------------------------
# the real TEXT layer of both writers (escaping, line ends, characters outside XML 1.0) - harness/textpath.py write_check
from harness import textpath  # noqa: E402
from harness.common import concretize, known, untraced  # noqa: E402

_TP_PROP = "C01"
_KNOWN_NONXML = known("C03-native-writer-nonxml-chars")


def real_text(c0: int, c1: int, place: int) -> bool:
    """
    pre: 0 <= c0 < len(textpath.CPS)
    pre: 0 <= c1 <= len(textpath.CPS)
    pre: place == PART.get("place", 0)
    post: _
    """
    k0, k1, kp = concretize(c0, len(textpath.CPS)), concretize(c1, len(textpath.CPS) + 1), PART.get("place", 0)
    with untraced():
        return result(textpath.write_check(_TP_PROP, textpath.PLACES[kp], k0, k1, _KNOWN_NONXML)["ok"])


def explain_real_text(c0, c1, place):
    return textpath.write_check(_TP_PROP, textpath.PLACES[place], c0, c1, _KNOWN_NONXML)


# ---------------------------------------------------------------------------------------------------------------------
# VALUE-SYMBOLIC: the native writer's own text layer (XmlEventWriter.set_characters / flush_start + xml.sax.saxutils escape and
# quoteattr, all Python) executed on a symbolic string into a Python sink; oracle = the XML 1.0 reading model of textpath.
import io as _io  # noqa: E402


class _Sink(_io.TextIOBase):
    def __init__(self):
        self.parts = []

    def write(self, s):
        self.parts.append(s)
        return len(s)


def _native_writer():
    from xml.sax.saxutils import XMLGenerator

    from xsdata.formats.dataclass.serializers.writers import XmlEventWriter

    sink = _Sink()
    w = XmlEventWriter(config=SerializerConfig(xml_declaration=False), output=sink, ns_map={})
    w.handler = XMLGenerator(out=sink, encoding="UTF-8", short_empty_elements=True)
    return w, sink


def _same_str(a, b):
    return a is not None and len(a) == len(b) and all([ord(x) == ord(y) for x, y in zip(a, b)])


def writer_text(s: str) -> bool:
    """
    pre: 1 <= len(s) <= PART.get("wlen", 2)
    pre: all([textpath._xml_cp(ord(c)) for c in s])
    post: _
    """
    w, sink = _native_writer()
    w.set_characters(s)
    return result(_same_str(textpath.read_chardata("".join(sink.parts)), s))


def writer_attr(s: str) -> bool:
    """
    pre: len(s) <= PART.get("wlen", 2)
    pre: all([textpath._xml_cp(ord(c)) for c in s])
    post: _
    """
    w, sink = _native_writer()
    w.start_tag("a")
    w.add_attribute("k", s)
    w.flush_start(False)
    raw = "".join(sink.parts)  # <a k="..."  or  <a k='...'  (XMLGenerator keeps the closing '>' pending)
    if len(raw) < 7:
        return result(False)
    quote = raw[5]
    if ord(quote) != 0x22 and ord(quote) != 0x27:
        return result(False)
    if ord(raw[-1]) != ord(quote):
        return result(False)
    return result(_same_str(textpath.read_chardata(raw[6:-1], True, quote), s))


def _real_docs(doc, w, h, ns):
    """A pool document through the real writer `w` (under the user prefix map `ns`) and the real handler `h`: equal object back."""
    from xsdata.formats.dataclass.context import XmlContext
    from xsdata.formats.dataclass.serializers import XmlSerializer

    cls, obj = textpath.doc_object(doc)
    ns_map = NS_MAPS[ns]
    writer, handler = ("native", "lxml")[w], ("native", "lxml")[h]
    try:
        data = XmlSerializer(context=XmlContext(), writer=textpath.writers()[writer]).render(obj, dict(ns_map) if ns_map is not None else None).encode()
        back = textpath.parse(data, cls, handler)[1]
    except Exception as e:  # noqa: BLE001
        return {"ok": False, "raised": repr(e)[:300], "writer": writer, "handler": handler, "ns_map": repr(ns_map)}
    return {"ok": back == obj, "writer": writer, "handler": handler, "ns_map": repr(ns_map), "document": data[:400].decode(errors="replace"), "parsed": repr(back)[:400]}


def real_docs(w: int, h: int, ns: int) -> bool:
    """
    pre: 0 <= w <= 1
    pre: 0 <= h <= 1
    pre: 0 <= ns < len(NS_MAPS)
    post: _
    """
    cw, ch, cn = concretize(w, 2), concretize(h, 2), concretize(ns, len(NS_MAPS))
    with untraced():
        return result(_real_docs(PART.get("doc", "basic"), cw, ch, cn)["ok"])


def plan(tier):
    jobs = []
    if tier == "quick":
        hostile = [3, 4, 5, 7, 8, 9]  # user maps that collide with generated prefixes / rebind xsi / bind the default namespace
        slow = {"unions_str": 1, "compound": 1, "nillable": 1, "sequential": 1, "family": 1, "unionmodels": 1}  # string bound 1 in the quick tier (int() model forks per character)
        for n, name in enumerate(_QUICK_SPECS):
            # every spec under one of the 8 covering configurations (rotating) and under one hostile prefix map
            w, h, ns, ind, ida = _QUICK_CFG[n % 8]
            jobs.append(Job("rt", {"spec": name, "writer": w, "handler": h, "ns": ns, "indent": ind, "ida": ida, "slen": slow.get(name, 2), "imax": 100}, 240, 30))
            jobs.append(Job("rt", {"spec": name, "writer": ("native", "lxml")[n % 3 == 2], "handler": ("lxml", "native")[n % 2], "ns": hostile[n % 6], "indent": 0, "ida": n % 2, "slen": slow.get(name, 2), "imax": 100}, 240, 30))
        for name, ns in (("nsattr", 1), ("nsattrparent", 1), ("nsattrparent", 7), ("qnames", 7), ("qnames", 1), ("nsattr", 10)):  # attribute namespace bound only as the default namespace
            jobs.append(Job("rt", {"spec": name, "writer": "native", "handler": "lxml", "ns": ns, "indent": 0, "ida": 0, "slen": 1, "imax": 100}, 240, 30))
        for ns in (5, 8):  # the xsi-using and two-namespace specs under the xsi-rebinding and the ns1-colliding map
            for name in ("nillable", "holder", "anytyped", "nsattr", "parenta"):
                jobs.append(Job("rt", {"spec": name, "writer": "native", "handler": "native", "ns": ns, "indent": 0, "ida": 0, "slen": 2, "imax": 100}, 240, 30))
    else:
        # every builder x writer x handler x every user prefix map; indent / ignore_default_attributes rotate with the map index
        for name in SPECS:
            for w in ("native", "lxml"):
                for h in ("native", "lxml"):
                    for ns in range(len(NS_MAPS)):
                        jobs.append(Job("rt", {"spec": name, "writer": w, "handler": h, "ns": ns, "indent": int(w == "native" and ns % 2 == 1), "ida": (ns // 2) % 2,
                                               "slen": 1 if name in ("unions_str", "compound") else 2, "imax": 1000}, 900, 40))
    for place in range(len(textpath.PLACES)):
        jobs.append(Job("real_text", {"place": place}, 300, 30, note="real writers / parsers on text; code points by selector"))
    for fn, wlen in (("writer_text", 2 if tier == "quick" else 3),) + (() if tier == "quick" else (("writer_attr", 1),)):
        jobs.append(Job(fn, {"wlen": wlen}, 300 if tier == "quick" else 2400, 60, note="value-symbolic: native writer text layer on a symbolic string (any XML 1.0 characters) vs the XML 1.0 reading model"))
    for doc in textpath.doc_names():
        jobs.append(Job("real_docs", {"doc": doc}, 120, 30, note="real writers x real handlers x 11 user prefix maps on a pool document (selector driven, concrete runs)"))
    return jobs


def token_space_witness():
    """Known finding C01-token-unicode-space, replayed through the public text API."""
    from harness.models import Lists
    from xsdata.formats.dataclass.parsers import XmlParser
    from xsdata.formats.dataclass.serializers import XmlSerializer

    obj = Lists(atoks=["a b", "c"])
    return XmlParser().from_string(XmlSerializer().render(obj), Lists) == obj


def nil_empty_witness():
    from harness.models import Nillable
    from xsdata.formats.dataclass.parsers import XmlParser
    from xsdata.formats.dataclass.serializers import XmlSerializer

    obj = Nillable(s="")
    return XmlParser().from_string(XmlSerializer().render(obj), Nillable) == obj


def req_text_witness():
    from harness.models import ReqText
    from xsdata.formats.dataclass.parsers import XmlParser
    from xsdata.formats.dataclass.serializers import XmlSerializer

    obj = ReqText(value="", a=1)
    try:
        return XmlParser().from_string(XmlSerializer().render(obj), ReqText) == obj
    except Exception:  # noqa: BLE001
        return False

EXPLAIN["real_text"] = explain_real_text

EXPLAIN["real_docs"] = lambda w, h, ns: _real_docs(PART.get("doc", "basic"), w, h, ns)
