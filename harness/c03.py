"""C03 - serialized XML is namespace-well-formed and says what the metadata says (DESIGN.md §5 C03)."""

from __future__ import annotations

from harness import c01, refser, seam
from harness.common import PART, result
from harness.specs import NS_MAPS, SPECS
from vlib.jobs import Job

from xsdata.exceptions import SerializerError, XmlWriterError
from xsdata.formats.dataclass.serializers.config import SerializerConfig

META = dict(c01.META)
META["bounds"] = c01.META["bounds"] + [
    "oracle 1 (all builders): namespace monitor on the recorded SAX stream of both writers (harness/seam.py:monitor), incl. an emulation of XMLGenerator's uri->prefix bookkeeping",
    "oracle 2 (builders listed in REFERENCE): differential against an independent reading of the metadata (harness/refser.py) - names, namespaces, nesting, order, xsi:nil/xsi:type, text",
]
META["outside"] = c01.META["outside"] + ["escaping of < & \" ]]> and control characters (XMLGenerator / lxml)", "compound fields, wildcards, unions, QName values, formats in oracle 2 (monitor only)"]


# every builder except the ones whose field kinds the reference reading does not cover (generic wildcards / attribute maps, anyType values,
# formatted temporal values, unions of models); value kinds it does not know raise NotImplementedError inside covered builders (monitor only then)
NOT_REFERENCE = ["wild_text", "wild_attrs", "anytyped", "temporal", "unionmodels", "renamed"]
REFERENCE = [n for n in SPECS if n not in NOT_REFERENCE]
SLEN = PART.get("slen", 2)
IMAX = PART.get("imax", 100)
_SPEC = SPECS.get(PART.get("spec", "basic_int"))
K = _SPEC.K if _SPEC else (1, 1, 1)


def _valid(i0, i1, s0, s1, b0, k0, k1, k2):
    if _SPEC.valid is None:
        return True
    return _SPEC.valid(i0, i1, s0, s1, b0, k0, k1, k2)


def wf(i0: int, i1: int, s0: str, s1: str, b0: bool, k0: int, k1: int, k2: int) -> bool:
    """
    pre: -IMAX < i0 < IMAX
    pre: -10 < i1 < 100
    pre: len(s0) <= SLEN
    pre: len(s1) <= SLEN
    pre: 0 <= k0 < K[0]
    pre: 0 <= k1 < K[1]
    pre: 0 <= k2 < K[2]
    pre: _valid(i0, i1, s0, s1, b0, k0, k1, k2)
    post: _
    """
    return _wf(PART, i0, i1, s0, s1, b0, k0, k1, k2)


def _tree_eq(a, b):
    """Infoset trees equal (strings compared code point by code point)."""
    from harness.common import str_eq

    if isinstance(a, str) or isinstance(b, str):
        return isinstance(a, str) and isinstance(b, str) and str_eq(a, b)
    if isinstance(a, list):
        if not isinstance(b, list) or len(a) != len(b):
            return False
        for x, y in zip(a, b):
            if not _tree_eq(x, y):
                return False
        return True
    (qa, aa, ka), (qb, ab, kb) = a, b
    if qa != qb or len(aa) != len(ab):
        return False
    for k in aa:
        if k not in ab or not str_eq(aa[k], ab[k]):
            return False
    return _tree_eq(ka, kb)


def _wf(part, i0, i1, s0, s1, b0, k0, k1, k2):
    spec = SPECS[part["spec"]]
    obj = spec.build(i0, i1, s0, s1, b0, k0, k1, k2)
    ns_map = NS_MAPS[part.get("ns", 0)]
    ida = bool(part.get("ida"))
    ok = True
    for writer in ("native", "lxml"):
        cfg = SerializerConfig(indent="  " if (part.get("indent") and writer == "native") else None, ignore_default_attributes=ida)
        try:
            calls = seam.to_sax(obj, writer, cfg, dict(ns_map) if ns_map else None, c01._context(spec.cls))
        except (SerializerError, XmlWriterError):
            continue  # the property allows the call to fail with a serializer error
        if seam.monitor(calls, writer == "native"):
            return result(False)
        if part["spec"] in REFERENCE:
            try:
                want = [refser.element(obj, ida=ida)]
            except NotImplementedError:
                want = None  # value kind outside the reference reading (e.g. QName): monitor only for this instance
            if want is not None:
                ok = ok and _tree_eq(seam.tree_of(calls), want)
    return result(ok)


def explain_wf(i0, i1, s0, s1, b0, k0, k1, k2):
    """Public-API replay: render with both real writers, re-parse with an independent XML parser (ElementTree / lxml)."""
    from xml.etree import ElementTree

    from xsdata.formats.dataclass.serializers import XmlSerializer

    part = PART
    spec = SPECS[part["spec"]]
    obj = spec.build(i0, i1, s0, s1, b0, k0, k1, k2)
    ns_map = NS_MAPS[part.get("ns", 0)]
    out = {"object": repr(obj), "ns_map": repr(ns_map)}
    for writer in ("native", "lxml"):
        cfg = SerializerConfig(ignore_default_attributes=bool(part.get("ida")), xml_declaration=False)
        try:
            text = XmlSerializer(config=cfg, writer=seam.REAL_WRITERS[writer]).render(obj, ns_map=dict(ns_map) if ns_map else None)
            out[writer] = text
            ElementTree.fromstring(text)
            out[writer + "_independent_parse"] = "ok"
        except Exception as e:  # noqa: BLE001
            out[writer + "_exception"] = repr(e)
        try:
            cfg2 = SerializerConfig(ignore_default_attributes=bool(part.get("ida")))
            calls = seam.to_sax(obj, writer, cfg2, dict(ns_map) if ns_map else None)
            out[writer + "_monitor"] = seam.monitor(calls, writer == "native")
            if part["spec"] in REFERENCE:
                out[writer + "_tree"] = repr(seam.tree_of(calls))
                out["reference_tree"] = repr([refser.element(obj, ida=bool(part.get("ida")))])
        except Exception as e:  # noqa: BLE001
            out[writer + "_seam_exception"] = repr(e)
    return out


PRE = {}
EXPLAIN = {"wf": explain_wf}


# ---------------------------------------------------------------------------------------------------------------------
# the real TEXT layer of both writers (escaping, line ends, characters outside XML 1.0) - harness/textpath.py write_check
from harness import textpath  # noqa: E402
from harness.common import concretize, known, untraced  # noqa: E402

_TP_PROP = "C03"
_KNOWN_NONXML = known("C03-native-writer-nonxml-chars")


def real_text(c0: int, c1: int, place: int) -> bool:
    """
    pre: 0 <= c0 < len(textpath.CPS)
    pre: 0 <= c1 <= len(textpath.CPS)
    pre: place == PART.get("place", 0)
    post: _
    """
    k0, k1, kp = concretize(c0, len(textpath.CPS)), concretize(c1, len(textpath.CPS) + 1), PART.get("place", 0)
    with untraced():
        return result(textpath.write_check(_TP_PROP, textpath.PLACES[kp], k0, k1, _KNOWN_NONXML)["ok"])


def explain_real_text(c0, c1, place):
    return textpath.write_check(_TP_PROP, textpath.PLACES[place], c0, c1, _KNOWN_NONXML)


def plan(tier):
    jobs = []
    names = list(c01._QUICK_SPECS)
    if tier == "quick":
        slow = {"unions_str": 1, "compound": 1, "nillable": 1, "sequential": 1, "family": 1, "unionmodels": 1}
        hostile = [3, 4, 5, 7, 8, 9, 1, 6]
        for n, name in enumerate(names):
            jobs.append(Job("wf", {"spec": name, "ns": hostile[n % 8], "ida": n % 2, "indent": (n // 2) % 2, "slen": slow.get(name, 2), "imax": 100}, 240, 30))
            if name in REFERENCE:
                jobs.append(Job("wf", {"spec": name, "ns": [0, 2, 5, 8][n % 4], "ida": (n + 1) % 2, "indent": 0, "slen": slow.get(name, 2), "imax": 100}, 240, 30))
        for name, ns in (("qnames", 7), ("nsattr", 10), ("nsattrparent", 10), ("nsattrparent", 1), ("family", 2), ("family", 7)):
            jobs.append(Job("wf", {"spec": name, "ns": ns, "ida": 0, "indent": 0, "slen": 1, "imax": 100}, 240, 30))
        for ns in (5, 8, 9):
            for name in ("nillable", "holder", "anytyped", "nsattr", "parenta", "qnames", "wild_attrs"):
                jobs.append(Job("wf", {"spec": name, "ns": ns, "ida": 0, "indent": 0, "slen": 1, "imax": 100}, 240, 30))
    else:
        for name in SPECS:
            for ns in range(len(NS_MAPS)):
                for ida in (0, 1):
                    jobs.append(Job("wf", {"spec": name, "ns": ns, "ida": ida, "indent": ns % 2, "slen": 1 if name in ("unions_str", "compound") else 2, "imax": 1000}, 900, 40))
    for place in range(len(textpath.PLACES)):
        jobs.append(Job("real_text", {"place": place}, 300, 30, note="real writers / parsers on text; code points by selector"))
    return jobs

EXPLAIN["real_text"] = explain_real_text


def nonxml_witness():
    """Known finding C03-native-writer-nonxml-chars through the public API."""
    from harness import textpath as tp
    from harness.models import Basic

    try:
        return tp.well_formed(tp.render(Basic(i=1, s="a\x0bb"), "native").encode())
    except Exception:  # noqa: BLE001
        return True
