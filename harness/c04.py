"""C04 - JSON / dictionary round trip (DESIGN.md §5 C04): DictEncoder -> DictDecoder on symbolic instances."""

from __future__ import annotations

from harness import c01
from harness.common import PART, deep_eq, known, result
from harness.specs import SPECS
from vlib.jobs import Job

from xsdata.formats.dataclass.parsers.dict import DictDecoder
from xsdata.formats.dataclass.serializers.dict import DictEncoder, DictFactory

META = {
    "functions": [
        "xsdata.formats.dataclass.serializers.dict:DictEncoder.encode", "xsdata.formats.dataclass.serializers.dict:DictEncoder.next_value",
        "xsdata.formats.dataclass.serializers.dict:filter_none",
        "xsdata.formats.dataclass.parsers.dict:DictDecoder.decode", "xsdata.formats.dataclass.parsers.dict:DictDecoder.verify_type",
        "xsdata.formats.dataclass.parsers.dict:DictDecoder.bind_dataclass", "xsdata.formats.dataclass.parsers.dict:DictDecoder.find_var",
        "xsdata.formats.dataclass.parsers.dict:DictDecoder.bind_value", "xsdata.formats.dataclass.parsers.dict:DictDecoder.bind_text",
        "xsdata.formats.dataclass.parsers.dict:DictDecoder.bind_complex_type", "xsdata.formats.dataclass.parsers.dict:DictDecoder.bind_best_dataclass",
        "xsdata.formats.dataclass.parsers.dict:DictDecoder.bind_derived_value", "xsdata.formats.dataclass.parsers.dict:DictDecoder.bind_derived_dataclass",
        "xsdata.formats.dataclass.models.elements:XmlVar.find_value_choice", "xsdata.formats.dataclass.compat:Dataclasses.score_object",
        "xsdata.formats.dataclass.context:XmlContext.local_names_match", "xsdata.formats.dataclass.parsers.utils:ParserUtils.parse_var",
    ],
    "bounds": [
        "model pool / instance builders as C01 (harness/specs.py), minus builders with untyped (anyType) primitive fields, which the property excludes",
        "focus values: first int |x| < 100 (quick) / 10**5 (thorough), strings <= 2 arbitrary code points, bools; selectors for the rest",
        "factories {dict, FILTER_NONE} x top level {object, list of two objects}",
    ],
    "outside": ["json.dump / json.load themselves (C boundary; stub contract: identity on JSON-native values - the encoded form is checked to be JSON-native)",
                "models outside the pool"],
    "stubs": ["CrossHair model pack (chmodels)", "XmlContext.get_subclasses(object) iterates the model pool (environment)"],
    "assumptions": ["a json library maps None/bool/int/float/str/list/tuple/dict[str,...] faithfully"],
}

SLEN = PART.get("slen", 2)
IMAX = PART.get("imax", 100)
_SPEC = SPECS.get(PART.get("spec", "basic_int"))
K = _SPEC.K if _SPEC else (1, 1, 1)


_KNOWN_GENERIC = known("C04-filter-none-generic")
_KNOWN_SUBCLASS = known("C04-subclass-ambiguity")
_KNOWN_DUPNAME = known("C04-duplicate-element-name")


def _valid(i0, i1, s0, s1, b0, k0, k1, k2):
    name = PART.get("spec")
    # exactly the signatures of the listed known findings are excluded
    if _KNOWN_SUBCLASS and name == "holder":
        if k0 == 1 or PART.get("filter"):  # a Base instance / a Derived whose extras are None under FILTER_NONE
            return False
    if _KNOWN_SUBCLASS and name == "family":
        used = [k0, k1][:k2]
        if 0 in used or (PART.get("filter") and 3 in used):  # a Base instance / a Derived whose extras are None under FILTER_NONE
            return False
    if _KNOWN_GENERIC and PART.get("filter") and name in ("wild_text", "wild_attrs"):
        if (name == "wild_text" and k0 != 0) or (name == "wild_attrs" and k1 != 0):
            return False
    if _SPEC.valid is None:
        return True
    return _SPEC.valid(i0, i1, s0, s1, b0, k0, k1, k2)


def _json_native(v):
    if v is None or isinstance(v, (bool, int, float, str)):
        return True
    if isinstance(v, (list, tuple)) and not hasattr(v, "_fields"):
        for x in v:
            if not _json_native(x):
                return False
        return True
    if isinstance(v, dict):
        for k, x in v.items():
            if not isinstance(k, str) or not _json_native(x):
                return False
        return True
    return False


def drt(i0: int, i1: int, s0: str, s1: str, b0: bool, k0: int, k1: int, k2: int) -> bool:
    """
    pre: -IMAX < i0 < IMAX
    pre: -10 < i1 < 100
    pre: len(s0) <= SLEN
    pre: len(s1) <= SLEN
    pre: 0 <= k0 < K[0]
    pre: 0 <= k1 < K[1]
    pre: 0 <= k2 < K[2]
    pre: _valid(i0, i1, s0, s1, b0, k0, k1, k2)
    post: _
    """
    return _drt(PART, i0, i1, s0, s1, b0, k0, k1, k2)


def _drt(part, i0, i1, s0, s1, b0, k0, k1, k2):
    spec = SPECS[part["spec"]]
    obj = spec.build(i0, i1, s0, s1, b0, k0, k1, k2)
    ctx = c01._context(spec.cls)
    factory = DictFactory.FILTER_NONE if part.get("filter") else dict
    enc = DictEncoder(context=ctx, dict_factory=factory)
    dec = DictDecoder(context=ctx)
    if part.get("top") == "list":
        data = enc.encode([obj, obj])
        if not _json_native(data):
            return result(False)
        back = dec.decode(data, list[spec.cls])
        return result(isinstance(back, list) and len(back) == 2 and deep_eq(back[0], obj) and deep_eq(back[1], obj))
    data = enc.encode(obj)
    if not _json_native(data):
        return result(False)
    if part.get("filter"):
        for v in data.values():
            if v is None:
                return result(False)
    back = dec.decode(data, spec.cls)
    return result(deep_eq(back, obj))


def explain_drt(i0, i1, s0, s1, b0, k0, k1, k2):
    from xsdata.formats.dataclass.parsers import JsonParser
    from xsdata.formats.dataclass.serializers import JsonSerializer

    part = PART
    spec = SPECS[part["spec"]]
    obj = spec.build(i0, i1, s0, s1, b0, k0, k1, k2)
    out = {"object": repr(obj)}
    try:
        factory = DictFactory.FILTER_NONE if part.get("filter") else dict
        text = JsonSerializer(dict_factory=factory).render(obj)
        out["json"] = text
        back = JsonParser().from_string(text, spec.cls)
        out["parsed"] = repr(back)
        out["text_level_equal"] = back == obj
    except Exception as e:  # noqa: BLE001
        out["text_level_exception"] = repr(e)
    return out


PRE = {}
EXPLAIN = {"drt": explain_drt}
_SKIP = {"anytyped"}  # untyped primitive fields are excluded by the property statement


def plan(tier):
    jobs = []
    if _KNOWN_DUPNAME:
        _SKIP.add("dup")  # the whole builder is the signature of the listed known finding (two fields with one element name)
    names = [n for n in c01._QUICK_SPECS if n not in _SKIP]
    if tier == "quick":
        slow = {"unions_str": 1, "compound": 1, "unionmodels": 1}
        for n, name in enumerate(names):
            jobs.append(Job("drt", {"spec": name, "filter": n % 2, "top": "object", "slen": slow.get(name, 2), "imax": 100}, 240, 30))
            if n % 3 == 0:
                jobs.append(Job("drt", {"spec": name, "filter": (n + 1) % 2, "top": "list", "slen": 1, "imax": 100}, 240, 30))
    else:
        for name in SPECS:
            if name in _SKIP:
                continue
            for flt in (0, 1):
                if flt and name == "holder" and _KNOWN_SUBCLASS:
                    continue  # whole partition is the excluded signature of the known finding
                for top in ("object", "list"):
                    jobs.append(Job("drt", {"spec": name, "filter": flt, "top": top, "slen": 2, "imax": 10**5}, 900, 40))
    return jobs


def filter_generic_witness():
    from harness.models import AnyElement, Wild

    obj = Wild(known=1, any=AnyElement(qname="{urn:c}foo", text="t"))
    try:
        return DictDecoder().decode(DictEncoder(dict_factory=DictFactory.FILTER_NONE).encode(obj), Wild) == obj
    except Exception:  # noqa: BLE001
        return False


def subclass_witness():
    from harness.models import Base, Holder

    obj = Holder(b=Base(x=1))
    return DictDecoder().decode(DictEncoder().encode(obj), Holder) == obj


def dupname_witness():
    from harness.models import Dup

    obj = Dup(code=42, label="l", alt_code="0042")
    return DictDecoder().decode(DictEncoder().encode(obj), Dup) == obj
