"""C05 - primitive values <-> XSD lexical forms (DESIGN.md §5 C05).

Engine A (CrossHair on xsdata.formats.converter):
  bool_lex      every string of <= N code points: XSD lexical forms are accepted with the XSD value, anything accepted
                is one of the four tokens surrounded by white space
  int_lex       ws* [+-]? d{1..w} ws* with every digit symbolic -> the value computed from the digits
  int_canon     serialize(i) is a canonical xs:integer literal and deserialises to i, |i| < 10**11
  bytes_rt      base16 / base64 of symbolic bytes (<= 3) through pure-Python models of binascii/base64 (validated vs. C)
  qname_rt      QNameConverter.serialize/deserialize/resolve with prefix maps from selector pools
  enum_match    EnumConverter.deserialize over a pool of enum classes, raw value = symbolic digits / selector strings
  candidates    sort_types puts the documented priority first; deserialize(value, sorted) == first type that accepts
  float_lex     FloatConverter.serialize on a symbolic repr() string (CPython's repr(float) grammar) -> XSD double lexical
  edge_pool     float/Decimal/bytes/date(time) C functions on a concrete edge pool (selector enumeration)
Engine B: z_int_datatype  DataType.from_value(int): inferred XSD range contains the value, no narrower candidate does.
"""

from __future__ import annotations

import math
from decimal import Decimal
from enum import Enum
from xml.etree.ElementTree import QName

from harness.common import PART, concretize, known, result, untraced
from vlib.jobs import Job

from xsdata.exceptions import ConverterError
from xsdata.formats.converter import ConverterFactory, converter
from xsdata.models.datatype import XmlDate, XmlDateTime, XmlDuration, XmlPeriod, XmlTime

META = {
    "functions": [
        "xsdata.formats.converter:BoolConverter.deserialize", "xsdata.formats.converter:BoolConverter.serialize",
        "xsdata.formats.converter:IntConverter.deserialize", "xsdata.formats.converter:IntConverter.serialize",
        "xsdata.formats.converter:FloatConverter.serialize", "xsdata.formats.converter:FloatConverter.deserialize",
        "xsdata.formats.converter:DecimalConverter.serialize", "xsdata.formats.converter:DecimalConverter.deserialize",
        "xsdata.formats.converter:BytesConverter.serialize", "xsdata.formats.converter:BytesConverter.deserialize",
        "xsdata.formats.converter:QNameConverter.serialize", "xsdata.formats.converter:QNameConverter.deserialize",
        "xsdata.formats.converter:QNameConverter.resolve", "xsdata.formats.converter:EnumConverter.deserialize",
        "xsdata.formats.converter:EnumConverter.match", "xsdata.formats.converter:EnumConverter._match_list",
        "xsdata.formats.converter:EnumConverter._match_atomic", "xsdata.formats.converter:ConverterFactory.deserialize",
        "xsdata.formats.converter:ConverterFactory.serialize", "xsdata.formats.converter:ConverterFactory.test",
        "xsdata.formats.converter:ConverterFactory.sort_types", "xsdata.formats.converter:ConverterFactory.type_converter",
        "xsdata.models.enums:int_datatype", "xsdata.models.enums:DataType.from_value",
        "xsdata.utils.namespaces:split_qname", "xsdata.utils.namespaces:load_prefix", "xsdata.utils.namespaces:generate_prefix",
        "xsdata.utils.namespaces:is_ncname", "xsdata.utils.text:split",
    ],
    "bounds": [
        "bool: all strings of <= 4 code points (quick) / <= 5 (thorough), full Unicode",
        "int: 1..11 symbolic digits, optional sign, optional surrounding blank/tab/newline; canonical |i| < 10**11",
        "bytes: <= 3 symbolic bytes (base16) / <= 3 (base64)",
        "float: repr grammar with <= 4 mantissa digits and <= 3 exponent digits, symbolic digits",
        "QName / enum / candidate lists: selector pools (finite, enumerated by the solver's forking)",
        "int_datatype: all integers (engine B, loop-free)",
    ],
    "outside": [
        "float()/repr(float)/Decimal arithmetic themselves (C): only the lexical transformation xsdata applies is symbolic; C functions run on a concrete edge pool",
        "datetime.strptime/strftime formats (C)", "strings accepted beyond the XSD lexical space (e.g. '1_0', Unicode digits): not forbidden by the property",
    ],
    "stubs": ["repr() of a marker float subclass returns a symbolic string ranging over CPython's repr(float) grammar",
              "binascii.hexlify/unhexlify, base64.b16encode/b64encode/b64decode: pure-Python models (validated against the C functions at import)",
              "CrossHair model pack (chmodels)"],
    "assumptions": ["CPython's repr(float) grammar: -?(d+.d+|d(.d+)?e[+-]dd+|inf|nan)"],
}

XSD_WS = (32, 9, 10, 13)


# ----------------------------------------------------------------------------- bool
def bool_lex(s: str) -> bool:
    """
    pre: len(s) == PART.get("n", 5)
    post: _
    """
    conv = converter.type_converter(bool)
    try:
        got = conv.deserialize(s)
    except ConverterError:
        got = None
    # independent reading: strip XSD white space, compare with the four literals
    i, j = 0, len(s)
    while i < j and ord(s[i]) in XSD_WS:
        i += 1
    while j > i and ord(s[j - 1]) in XSD_WS:
        j -= 1
    tok = s[i:j]
    if tok == "true" or tok == "1":
        return result(got is True)
    if tok == "false" or tok == "0":
        return result(got is False)
    # not an XSD literal: may be rejected; if accepted it must be a literal surrounded by (Python) white space
    if got is None:
        return result(True)
    core = s.strip()
    return result((got is True and core in ("true", "1")) or (got is False and core in ("false", "0")))


def bool_canon(b: bool) -> bool:
    """
    post: _
    """
    text = converter.serialize(b)
    return result(text in ("true", "false") and converter.deserialize(text, [bool]) is b and (text == "true") == b)


# ----------------------------------------------------------------------------- int
ND = PART.get("w", 0)


def dok(d, i):
    if i >= ND:
        return True
    return 0 <= d <= 9


def int_lex(d0: int, d1: int, d2: int, d3: int, d4: int, d5: int, d6: int, d7: int, d8: int, d9: int, d10: int) -> bool:
    """
    pre: dok(d0, 0)
    pre: dok(d1, 1)
    pre: dok(d2, 2)
    pre: dok(d3, 3)
    pre: dok(d4, 4)
    pre: dok(d5, 5)
    pre: dok(d6, 6)
    pre: dok(d7, 7)
    pre: dok(d8, 8)
    pre: dok(d9, 9)
    pre: dok(d10, 10)
    post: _
    """
    ds = [d0, d1, d2, d3, d4, d5, d6, d7, d8, d9, d10][: PART["w"]]
    sign, lead, trail = PART.get("sign", ""), PART.get("lead", ""), PART.get("trail", "")
    text = lead + sign + "".join(chr(48 + d) for d in ds) + trail
    val = 0
    for d in ds:
        val = val * 10 + d
    if sign == "-":
        val = -val
    got = converter.deserialize(text, [int])
    ok = got == val and type(got) is int
    # and through the candidate-list route used for unions
    ok = ok and converter.deserialize(text, [int, str]) == val
    return result(ok)


def int_canon(i: int) -> bool:
    """
    pre: -10**11 < i < 10**11
    post: _
    """
    text = converter.serialize(i)
    n = len(text)
    k = 1 if (n > 0 and text[0] == "-") else 0
    ok = n > k
    for idx in range(k, n):
        c = ord(text[idx])
        ok = ok and 48 <= c <= 57
    ok = ok and (n - k == 1 or ord(text[k]) != 48) and (k == 1) == (i < 0)
    back = converter.deserialize(text, [int])
    strict = converter.test(text, [int], strict=True)
    return result(ok and back == i and strict)


# ----------------------------------------------------------------------------- bytes
_HEX = "0123456789ABCDEF"
_B64 = "ABCDEFGHIJKLMNOPQRSTUVWXYZabcdefghijklmnopqrstuvwxyz0123456789+/"


def _m_b16encode(data):
    out = []
    for b in data:
        for v in (b // 16, b % 16):
            out.append(chr(v + 55) if v > 9 else chr(v + 48))  # two-way fork, no table lookup on a symbolic index
    return "".join(out).encode("ascii")


def _hexval(c):
    if 48 <= c <= 57:
        return c - 48
    if 65 <= c <= 70:
        return c - 55
    if 97 <= c <= 102:
        return c - 87
    return -1


def _m_unhexlify(data):
    import binascii

    if isinstance(data, str):
        cps = [ord(ch) for ch in data]
        if any([c > 127 for c in cps]):
            raise ValueError("string argument should contain only ASCII characters")
    else:
        cps = list(data)
    if len(cps) % 2:
        raise binascii.Error("Odd-length string")
    out = []
    for k in range(0, len(cps), 2):
        hi, lo = _hexval(cps[k]), _hexval(cps[k + 1])
        if hi < 0 or lo < 0:
            raise binascii.Error("Non-hexadecimal digit found")
        out.append(hi * 16 + lo)
    return bytes(out)


def _m_b64encode(data):
    bs = list(data)
    out = []
    for k in range(0, len(bs), 3):
        chunk = bs[k : k + 3]
        n = len(chunk)
        v = 0
        for b in chunk:
            v = v * 256 + b
        v = v * (256 ** (3 - n))
        idx = [v // 262144 % 64, v // 4096 % 64, v // 64 % 64, v % 64]
        chars = [_b64chr(i) for i in idx]
        if n == 1:
            chars[2] = chars[3] = "="
        elif n == 2:
            chars[3] = "="
        out.extend(chars)
    return "".join(out).encode("ascii")


def _b64chr(i):
    if i < 26:
        return chr(65 + i)
    if i < 52:
        return chr(71 + i)
    if i < 62:
        return chr(i - 4)
    return "+" if i == 62 else "/"


def _b64val(c):
    if 65 <= c <= 90:
        return c - 65
    if 97 <= c <= 122:
        return c - 71
    if 48 <= c <= 57:
        return c + 4
    if c == 43:
        return 62
    if c == 47:
        return 63
    return -1


def _m_b64decode(data, altchars=None, validate=False):
    """Model of base64.b64decode(s, validate=True) for ASCII str input."""
    import binascii

    cps = [ord(ch) for ch in data] if isinstance(data, str) else list(data)
    if any([c > 127 for c in cps]):
        raise ValueError("string argument should contain only ASCII characters")
    if len(cps) % 4:
        raise binascii.Error("Incorrect padding")
    out = []
    nq = len(cps) // 4
    for q in range(nq):
        c = cps[4 * q : 4 * q + 4]
        last = q == nq - 1
        pad = 0
        if last and c[3] == 61:
            pad = 1
            if c[2] == 61:
                pad = 2
        vals = [_b64val(x) for x in c[: 4 - pad]]
        if any([v < 0 for v in vals]):
            raise binascii.Error("Only base64 data is allowed")
        v = 0
        for x in vals:
            v = v * 64 + x
        v = v * (64**pad)
        trip = [v // 65536 % 256, v // 256 % 256, v % 256]
        out.extend(trip[: 3 - pad])
    return bytes(out)


def _validate_byte_models():
    import base64
    import binascii
    import itertools

    pool = [b"", b"\x00", b"\xff", b"ab", b"\x00\x10\x7f", b"abcd", b"\xfa\xfb\xfc\xfd\xfe"]
    for b in pool:
        assert _m_b16encode(b) == base64.b16encode(b), b
        assert _m_b64encode(b) == base64.b64encode(b), b
        assert _m_unhexlify(base64.b16encode(b).decode()) == b
        assert _m_b64decode(base64.b64encode(b).decode(), validate=True) == b
    for s in ["0", "0g", "zz", "0A0b", "é0"]:
        try:
            a = binascii.unhexlify(s)
        except ValueError:
            a = None
        try:
            m = _m_unhexlify(s)
        except ValueError:
            m = None
        assert a == m, s
    for s in ["A", "AA==", "AAA=", "AAAA", "A===", "AA=A", "!AAA", "AAA", "QUJD", "QQ==", "QUI="]:
        try:
            a = base64.b64decode(s, validate=True)
        except ValueError:
            a = None
        try:
            m = _m_b64decode(s, validate=True)
        except ValueError:
            m = None
        if a is not None:  # the model may be stricter on malformed padding; on valid input it must agree
            assert a == m, s
    return True


_validate_byte_models()


def _install_byte_models():
    import base64
    import binascii

    from crosshair.core import register_patch

    for target, model in ((base64.b16encode, _m_b16encode), (binascii.unhexlify, _m_unhexlify), (base64.b64encode, _m_b64encode), (base64.b64decode, _m_b64decode)):
        try:
            register_patch(target, model)
        except Exception:  # already registered in this process
            pass


try:  # only under the CrossHair worker
    import crosshair.core  # noqa: F401

    import os as _os

    if _os.environ.get("XSV_REPLAY", "0") != "1":
        _install_byte_models()
except ImportError:
    pass


def bytes_rt(data: bytes, ws: int) -> bool:
    """
    pre: len(data) <= PART.get("n", 3)
    pre: 0 <= ws <= 2
    post: _
    """
    fmt = PART["fmt"]
    text = converter.serialize(data, format=fmt)
    alphabet = _HEX if fmt == "base16" else _B64 + "="
    ok = True
    for ch in text:
        ok = ok and ch in alphabet
    if fmt == "base16":
        ok = ok and len(text) == 2 * len(data)
    else:
        ok = ok and len(text) == 4 * ((len(data) + 2) // 3)
    # XSD allows white space inside/around binary literals
    if ws == 1:
        text2 = " " + text + "\n"
    elif ws == 2 and len(text) >= 2:
        text2 = text[:2] + " \t" + text[2:]
    else:
        text2 = text
    back = converter.deserialize(text2, [bytes], format=fmt)
    return result(ok and back == data)


_BYTES = [b"", b"\x00", b"\xff\xfe", b"abc", b"abcd", b"\x00\x10\x7f\x80\xff", bytes(range(16))]


def bytes_pool(i: int, f: int, ws: int) -> bool:
    """
    pre: 0 <= i < len(_BYTES)
    pre: 0 <= f <= 1
    pre: 0 <= ws <= 1
    post: _
    """
    import re

    fmt = ("base16", "base64")[f]
    data = _BYTES[i]
    text = converter.serialize(data, format=fmt)
    lex = re.fullmatch(r"([0-9A-F]{2})*" if f == 0 else r"([A-Za-z0-9+/]{4})*([A-Za-z0-9+/]{2}==|[A-Za-z0-9+/]{3}=)?", text) is not None
    if ws:
        text = " " + text[: len(text) // 2] + "\n " + text[len(text) // 2 :] + "\t"
    return result(lex and converter.deserialize(text, [bytes], format=fmt) == data)


# ----------------------------------------------------------------------------- QName
_URIS = ["urn:a", "urn:b", "http://www.w3.org/2001/XMLSchema", "http://example.com/x#y"]
_LOCALS = ["a", "B1", "_x-y.z", "int"]
_MAPS = [
    {},
    {"a": "urn:a"},
    {None: "urn:a"},
    {None: "urn:a", "b": "urn:b"},
    {"ns0": "urn:b"},
    {"ns1": "urn:b", "xs": "urn:a"},
    {"p": "urn:a", "q": "urn:a"},
]


def qname_rt(u: int, l: int, m: int) -> bool:
    """
    pre: 0 <= u <= len(_URIS)
    pre: 0 <= l < len(_LOCALS)
    pre: 0 <= m < len(_MAPS)
    post: _
    """
    uri = None if u == len(_URIS) else _URIS[u]
    local = _LOCALS[l]
    q = QName(uri, local) if uri else QName(local)
    ns_map = dict(_MAPS[m])
    if uri is None and None in ns_map and _KNOWN_NONS:
        return True  # known finding C05-qname-nons-default: excluded signature, witness replayed by the runner
    text = converter.serialize(q, ns_map=ns_map)
    ok = True
    if uri is None:
        ok = ok and text == local
    else:
        prefix, _, name = text.rpartition(":")
        ok = ok and name == local and ns_map.get(prefix if prefix else None, ns_map.get(prefix)) == uri
    back = converter.deserialize(text, [QName], ns_map=ns_map)
    ok = ok and back == q and back.text == q.text
    # Clark notation, no map
    text2 = converter.serialize(q)
    ok = ok and text2 == q.text and converter.deserialize("  " + text2 + " ", [QName]) == q
    return result(ok)


def qname_two_step(u1: int, u2: int, m: int) -> bool:
    """
    pre: 0 <= u1 < len(_URIS)
    pre: 0 <= u2 < len(_URIS)
    pre: 0 <= m < len(_MAPS)
    post: _
    """
    # two values serialised with ONE prefix map (as the writer does for one element scope): the first text must still denote
    # the first value when read back with the map as it is after the second serialisation
    c1, c2, cm = concretize(u1, len(_URIS)), concretize(u2, len(_URIS)), concretize(m, len(_MAPS))
    with untraced():
        ns_map = dict(_MAPS[cm])
        q1, q2 = QName(_URIS[c1], "one"), QName(_URIS[c2], "two")
        t1 = converter.serialize(q1, ns_map=ns_map)
        t2 = converter.serialize(q2, ns_map=ns_map)
        return result(converter.deserialize(t1, [QName], ns_map=ns_map) == q1 and converter.deserialize(t2, [QName], ns_map=ns_map) == q2)


_KNOWN_NONS = known("C05-qname-nons-default")

_BADQ = ["p:a", ":a", "a:", "a b", "1a", "", " ", "{urn:a}", "{}a", "{urn a}a", "x:y:z"]


def qname_bad(i: int, m: int) -> bool:
    """
    pre: 0 <= i < len(_BADQ)
    pre: 0 <= m < 3
    post: _
    """
    ns_map = [None, {}, {"q": "urn:q"}][m]
    try:
        v = converter.deserialize(_BADQ[i], [QName], ns_map=ns_map)
    except ConverterError:
        return result(True)
    # the property does not forbid accepting more than the lexical space: demand a QName and no foreign exception
    return result(isinstance(v, QName))


# ----------------------------------------------------------------------------- enums
class EStr(Enum):
    A = "a"
    AB = "a b"
    N1 = "1"


class EInt(Enum):
    ONE = 1
    TEN = 10
    NEG = -7


class EFloat(Enum):
    HALF = 0.5
    BIG = 1e22
    NAN = float("nan")


class EQName(Enum):
    X = QName("urn:a", "x")
    Y = QName("y")


class ETokens(Enum):
    T12 = (1, 2)
    T3 = (3,)


class ETokQ(Enum):
    AB = (QName("urn:a", "one"), QName("urn:b", "two"))
    C = (QName("three"),)


class ETokB(Enum):
    X = (b"\x01\xab", b"\x02\xcd")


def enum_int(d0: int, d1: int, lead: int) -> bool:
    """
    pre: 0 <= d0 <= 9
    pre: 0 <= d1 <= 9
    pre: 0 <= lead <= 2
    post: _
    """
    text = ["", " ", "-"][lead] + chr(48 + d0) + chr(48 + d1)
    val = d0 * 10 + d1
    if lead == 2:
        val = -val
    expect = None
    for m in EInt:
        if m.value == val:
            expect = m
    try:
        got = converter.deserialize(text, [EInt])
    except ConverterError:
        got = None
    ok = got is expect
    if expect is not None:
        ok = ok and converter.deserialize(converter.serialize(expect), [EInt]) is expect
    return result(ok)


_ERAW = ["a", " a ", "a b", "a  b", "1", "b", "", "0.5", "5e-1", "1E22", "1e+22", "NaN", "{urn:a}x", "p:x", "y", "1 2", " 1  2 ", "3", "1 2 3", "2 1"]


def enum_tokens_kw(k: int) -> bool:
    """
    pre: 0 <= k <= 2
    post: _
    """
    ck = concretize(k, 3)
    with untraced():
        if ck == 0:
            ns_map = {"p": "urn:a", "q": "urn:b"}
            text = converter.serialize(ETokQ.AB, ns_map=ns_map)
            return result(text == "p:one q:two" and converter.deserialize(text, [ETokQ], ns_map=ns_map) is ETokQ.AB)
        if ck == 1:
            return result(converter.deserialize(" three ", [ETokQ], ns_map={}) is ETokQ.C)
        text = converter.serialize(ETokB.X, format="base16")
        return result(text == "01AB 02CD" and converter.deserialize(text, [ETokB], format="base16") is ETokB.X)


def enum_pool(c: int, r: int) -> bool:
    """
    pre: 0 <= c < 5
    pre: 0 <= r < len(_ERAW)
    post: _
    """
    cls = [EStr, EInt, EFloat, EQName, ETokens][c]
    raw = _ERAW[r]
    kw = {"ns_map": {"p": "urn:a"}} if cls is EQName else {}
    try:
        got = converter.deserialize(raw, [cls], **kw)
    except ConverterError:
        got = None
    toks = raw.split()
    expect = None
    if cls is EStr:
        for m in EStr:
            if m.value == raw.strip() or m.value == " ".join(toks):
                expect = expect or m
    elif cls is EInt:
        if len(toks) == 1 and toks[0].lstrip("-").isdigit():
            for m in EInt:
                if m.value == int(toks[0]):
                    expect = m
    elif cls is EFloat:
        if len(toks) == 1:
            try:
                f = float(toks[0])
            except ValueError:
                f = None
            if f is not None:
                for m in EFloat:
                    if m.value == f or (math.isnan(f) and math.isnan(m.value)):
                        expect = m
    elif cls is EQName:
        table = {"{urn:a}x": EQName.X, "p:x": EQName.X, "y": EQName.Y}
        expect = table.get(raw.strip())
    else:
        if all(t.isdigit() for t in toks) and toks:
            expect = {(1, 2): ETokens.T12, (3,): ETokens.T3}.get(tuple(int(t) for t in toks))
    ok = got is expect
    if expect is not None and cls is not EFloat:
        ok = ok and converter.deserialize(converter.serialize(expect, **kw), [cls], **kw) is expect
    return result(ok)


# ----------------------------------------------------------------------------- candidate lists
_PRIORITY = [int, bool, float, Decimal, XmlTime, XmlDate, XmlDateTime, XmlDuration, XmlPeriod, QName, str]
_CVALS = ["1", "true", " 12 ", "1.5", "1e3", "abc", "a:b", "12:00:00", "2021-02-03", "2021-02-03T04:05:06", "P1Y", "2021", "--02", "", "NaN", "{urn:a}b"]
_THIRD = [11, 0, 2, 9, 10]  # third candidate: none / int / float / QName / str


def _accepts(tp, value):
    try:
        return True, converter.type_converter(tp).deserialize(value, data_type=tp)
    except ConverterError:
        return False, None


def candidates(i: int, j: int, k: int, v: int) -> bool:
    """
    pre: 0 <= i < len(PART["pairs"])
    pre: j == 0
    pre: 0 <= k < PART.get("nk", 5)
    pre: 0 <= v < len(_CVALS)
    post: _
    """
    i, j = PART["pairs"][i]
    types = [_PRIORITY[i], _PRIORITY[j]] + ([] if _THIRD[k] == len(_PRIORITY) else [_PRIORITY[_THIRD[k]]])
    value = _CVALS[v]
    ordered = ConverterFactory.sort_types(types)
    want_order = sorted(types, key=_PRIORITY.index)
    ok = ordered == want_order
    expect_ok, expect = False, None
    for tp in want_order:
        a, val = _accepts(tp, value)
        if a:
            expect_ok, expect = True, val
            break
    try:
        got = converter.deserialize(value, ordered)
        got_ok = True
    except ConverterError:
        got, got_ok = None, False
    same = (got_ok == expect_ok) and (not got_ok or (type(got) is type(expect) and (got == expect or (isinstance(got, (float, Decimal)) and got != got and expect != expect))))
    # strict test => serialising the decoded value gives back the stripped input
    if converter.test(value, ordered, strict=True) and got_ok and isinstance(got, (int, Decimal, XmlPeriod)) and not isinstance(got, bool):
        same = same and converter.serialize(got) == value.strip()
    return result(ok and same)


# ----------------------------------------------------------------------------- float lexical transformation
class _MarkerFloat(float):
    """float whose repr() is supplied by the driver (a symbolic string over CPython's repr grammar)."""

    _text = None

    def __repr__(self):
        return _MarkerFloat._text


def _xsd_double(s):
    """Parse an XSD double literal: returns (neg, int_digits, frac_digits, exp_neg, exp_digits) or None."""
    n = len(s)
    i = 0
    neg = False
    if i < n and (s[i] == "-" or s[i] == "+"):
        neg = s[i] == "-"
        i += 1
    a = i
    while i < n and 48 <= ord(s[i]) <= 57:
        i += 1
    ip = s[a:i]
    fp = ""
    if i < n and s[i] == ".":
        i += 1
        b = i
        while i < n and 48 <= ord(s[i]) <= 57:
            i += 1
        fp = s[b:i]
    if len(ip) + len(fp) == 0:
        return None
    eneg, ed = False, ""
    if i < n and (s[i] == "E" or s[i] == "e"):
        i += 1
        if i < n and (s[i] == "-" or s[i] == "+"):
            eneg = s[i] == "-"
            i += 1
        c = i
        while i < n and 48 <= ord(s[i]) <= 57:
            i += 1
        ed = s[c:i]
        if len(ed) == 0:
            return None
    if i != n:
        return None
    return (neg, ip, fp, eneg, ed)


def float_lex(d0: int, d1: int, d2: int, d3: int, d4: int, d5: int, d6: int) -> bool:
    """
    pre: 0 <= d0 <= 9
    pre: 0 <= d1 <= 9
    pre: 0 <= d2 <= 9
    pre: 0 <= d3 <= 9
    pre: 0 <= d4 <= 9
    pre: 0 <= d5 <= 9
    pre: 0 <= d6 <= 9
    post: _
    """
    sh = PART["shape"]  # e.g. "-d.dde+dd"
    ds = [d0, d1, d2, d3, d4, d5, d6]
    k = 0
    out = []
    for ch in sh:
        if ch == "d":
            out.append(chr(48 + ds[k]))
            k += 1
        else:
            out.append(ch)
    rep = "".join(out)
    _MarkerFloat._text = rep
    text = converter.type_converter(float).serialize(_MarkerFloat(1.5))
    got = _xsd_double(text)
    want = _xsd_double(rep)
    return result(got is not None and want is not None and got == want)


# ----------------------------------------------------------------------------- concrete edge pool through the C functions
_FLOATS = [0.0, -0.0, 1.0, -1.5, 1e22, 1e21, 1e16, 123456789.123, 5e-324, 1.7976931348623157e308, 2.0**63, 1e-5, 0.0001, float("inf"), float("-inf"), float("nan"), 3.14]
_DECS = [Decimal("0"), Decimal("1.50"), Decimal("1E+2"), Decimal("1E-7"), Decimal("-0"), Decimal("123456789012345678901234567890.5"), Decimal("Infinity"), Decimal("-Infinity"), Decimal("1E+30"), Decimal("0E-10")]
_FLEX = ["1", "+1", "-1.", ".5", "1e3", "1E3", "1.5E-3", " 1.0 ", "INF", "-INF", "NaN", "+INF", "0", "-0", "12.78e-2", "1267.43233E12"]
_DLEX = ["1", "+1", "-1.", ".5", " 1.0 ", "-0", "0001.100", "210"]


def edge_float(i: int) -> bool:
    """
    pre: 0 <= i < len(_FLOATS)
    post: _
    """
    v = _FLOATS[i]
    text = converter.serialize(v)
    if math.isnan(v):
        ok = text == "NaN"
    elif math.isinf(v):
        ok = text == ("INF" if v > 0 else "-INF")
    else:
        ok = _xsd_double(text) is not None
    back = converter.deserialize(text, [float])
    ok = ok and type(back) is float and (back == v or (math.isnan(v) and math.isnan(back))) and math.copysign(1.0, back) == math.copysign(1.0, v)
    ok = ok and converter.test(text, [float], strict=True)
    return result(ok)


def edge_decimal(i: int) -> bool:
    """
    pre: 0 <= i < len(_DECS)
    post: _
    """
    v = _DECS[i]
    text = converter.serialize(v)
    if v.is_infinite():
        ok = text == ("INF" if v > 0 else "-INF")
    else:
        p = _xsd_double(text)
        ok = p is not None and p[4] == "" and "e" not in text and "E" not in text  # xs:decimal has no exponent
    back = converter.deserialize(text, [Decimal])
    ok = ok and back == v and back.is_signed() == v.is_signed()
    return result(ok)


def edge_lex(i: int, j: int) -> bool:
    """
    pre: 0 <= i < 2
    pre: 0 <= j < 16
    post: _
    """
    if i == 0:
        s = _FLEX[j]
        v = converter.deserialize(s, [float])
        t = s.strip()
        if t in ("INF", "+INF"):
            return result(v == float("inf"))
        if t == "-INF":
            return result(v == float("-inf"))
        if t == "NaN":
            return result(v != v)
        p = _xsd_double(t)
        mant = Decimal((p[1] or "0") + "." + (p[2] or "0")) * (Decimal(10) ** (int(p[4] or "0") * (-1 if p[3] else 1)))
        return result(type(v) is float and v == float(-mant if p[0] else mant))
    if j >= len(_DLEX):
        return True
    s = _DLEX[j]
    v = converter.deserialize(s, [Decimal])
    p = _xsd_double(s.strip())
    mant = Decimal((p[1] or "0") + "." + (p[2] or "0"))
    return result(type(v) is Decimal and v == (-mant if p[0] else mant))


# ----------------------------------------------------------------------------- engine B
_INT_RANGES = {
    "short": (-32768, 32767), "int": (-2147483648, 2147483647), "long": (-9223372036854775808, 9223372036854775807), "integer": (None, None),
}


def int_datatype_replay(v):
    from xsdata.models.enums import DataType

    dt = DataType.from_value(v)
    lo, hi = _INT_RANGES[dt.code]
    inside = (lo is None or lo <= v) and (hi is None or v <= hi)
    narrower_ok = all(not (l is not None and l <= v <= h) for name, (l, h) in _INT_RANGES.items() if l is not None and (lo is None or (h - l) < (hi - lo)))
    return inside and narrower_ok


def z_int_datatype(part, timeout):
    import z3

    from pyz3 import Translator, raise_condition
    from pyz3.query import QuerySet
    from xsdata.models import enums

    qs = QuerySet(timeout)
    tr = Translator()
    v = z3.Int("v")
    outs = tr.call(enums.int_datatype, [v])
    if raise_condition(outs) is not False:
        qs.check("int_datatype never raises", raise_condition(outs), [v], replay_fn="int_datatype_replay")
    order = ["short", "int", "long", "integer"]
    for o in outs:
        if o.kind != "ret":
            continue
        code = o.value.code
        lo, hi = _INT_RANGES[code]
        inside = z3.And(*( [v >= lo, v <= hi] if lo is not None else [z3.BoolVal(True)] ))
        qs.check(f"returned {code}: value inside its XSD range", z3.And(o.pc, z3.Not(inside)), [v], replay_fn="int_datatype_replay")
        for nm in order[: order.index(code)]:
            l, h = _INT_RANGES[nm]
            qs.check(f"returned {code}: narrower {nm} does not contain the value", z3.And(o.pc, v >= l, v <= h), [v], replay_fn="int_datatype_replay")
        qs.witness(f"{code} reachable", o.pc)
    # DataType.from_value dispatches ints to int_datatype (concrete check of the table, regenerated each run)
    from xsdata.models.enums import DataType

    if DataType.from_value(5) is not enums.int_datatype(5) or DataType.from_value(2**40) is not enums.int_datatype(2**40):
        qs.cex.append({"args": [5], "replay_fn": "int_datatype_replay", "message": "DataType.from_value does not dispatch ints to int_datatype"})
    return qs.result({"functions": sorted(tr.functions_seen)})


# ----------------------------------------------------------------------------- datatype inference of period values
_PERIODS = ["2021", "0000", "0000Z", "-0001", "2021-05", "0000-05", "--05", "--05-06", "---07", "---31Z", "12345-01"]
_PERIOD_DT = ["gYear", "gYear", "gYear", "gYear", "gYearMonth", "gYearMonth", "gMonth", "gMonthDay", "gDay", "gDay", "gYearMonth"]


def period_datatype(i: int) -> bool:
    """
    pre: 0 <= i < len(_PERIODS)
    post: _
    """
    from xsdata.models.enums import DataType

    ci = concretize(i, len(_PERIODS))
    with untraced():
        p = XmlPeriod(_PERIODS[ci])
        dt = DataType.from_value(p)
        # the inferred datatype's own lexical space must contain the literal: it parses back through the type's converter
        back = converter.deserialize(converter.serialize(p), [dt.type])
        return result(dt.code == _PERIOD_DT[ci] and back == p)


# ----------------------------------------------------------------------------- converter registry history (candidate lists use MRO lookup)
class _BaseT(str):
    pass


class _MidT(_BaseT):
    pass


class _LeafT(_MidT):
    pass


def _registry_history(ops):
    """Apply ops to a fresh ConverterFactory; return the observable results of the 'convert' ops."""
    from xsdata.formats.converter import ConverterFactory, ProxyConverter

    f = ConverterFactory()
    f.register_converter(str, converter.type_converter(str))
    f.register_converter(_BaseT, ProxyConverter(lambda v: _BaseT("B:" + v)))
    out = []
    for op in ops:
        if op == 0:
            out.append(repr(f.deserialize("x", [_LeafT])))
        elif op == 1:
            f.register_converter(_MidT, ProxyConverter(lambda v: _MidT("M:" + v)))
        elif op == 2:
            try:
                f.unregister_converter(_MidT)
            except KeyError:
                out.append("KeyError")
        elif op == 3:
            out.append(repr(f.serialize(_LeafT("q"))))
        elif op == 4:
            f.register_converter(_LeafT, ProxyConverter(lambda v: _LeafT("L:" + v)))
    return out


def _registry_reference(ops):
    """Independent reading: a lookup uses the nearest registered class in the MRO at the time of the call."""
    reg = {"_BaseT"}
    out = []
    for op in ops:
        if op == 0:
            if "_LeafT" in reg:
                out.append(repr(_LeafT("L:x")))
            elif "_MidT" in reg:
                out.append(repr(_MidT("M:x")))
            else:
                out.append(repr(_BaseT("B:x")))
        elif op == 1:
            reg.add("_MidT")
        elif op == 2:
            if "_MidT" in reg:
                reg.discard("_MidT")
            else:
                out.append("KeyError")
        elif op == 3:
            out.append(repr("q"))
        elif op == 4:
            reg.add("_LeafT")
    return out


def registry_history(o0: int, o1: int, o2: int, o3: int) -> bool:
    """
    pre: 0 <= o0 <= 4
    pre: 0 <= o1 <= 4
    pre: 0 <= o2 <= 4
    pre: 0 <= o3 <= 4
    post: _
    """
    ops = [concretize(o, 5) for o in (o0, o1, o2, o3)]
    with untraced():
        return result(_registry_history(ops) == _registry_reference(ops))


PRE = {}
EXPLAIN = {}


def plan(tier):
    quick = tier == "quick"
    T = 200 if quick else 900
    jobs = [Job("bool_lex", {"n": n}, T if quick else 1800, 30) for n in range(0, 5 if quick else 6)] + [Job("bool_canon", {}, 60, 10)]
    widths = [1, 2, 5, 11] if quick else [1, 2, 3, 4, 5, 7, 9, 11]
    for w in widths:
        for sign in ("", "-", "+"):
            for lead, trail in ([("", "")] if quick and w not in (2,) else [("", ""), (" ", ""), ("", " "), ("\n", "\t "), ("\r", "\n")]):
                jobs.append(Job("int_lex", {"w": w, "sign": sign, "lead": lead, "trail": trail}, T, 30))
    jobs.append(Job("int_canon", {}, T, 30))
    for n in ([2] if quick else [1, 2, 3]):
        jobs.append(Job("bytes_rt", {"fmt": "base16", "n": n}, T, 30))
    for n in ([1] if quick else [1, 2]):
        jobs.append(Job("bytes_rt", {"fmt": "base64", "n": n}, T, 30))
    jobs.append(Job("bytes_pool", {}, T, 30, note="selector driven, real C binascii/base64 on a concrete pool"))
    jobs.append(Job("qname_rt", {}, T, 30, note="selector driven"))
    jobs.append(Job("qname_bad", {}, T, 30, note="selector driven"))
    jobs.append(Job("qname_two_step", {}, T, 30, note="selector driven"))
    jobs.append(Job("enum_tokens_kw", {}, T, 30, note="selector driven"))
    jobs.append(Job("enum_int", {}, T, 30))
    jobs.append(Job("enum_pool", {}, T, 30, note="selector driven"))
    if quick:
        pairs = [[0, 1], [0, 2], [0, 10], [1, 10], [2, 3], [3, 10], [4, 10], [5, 6], [5, 8], [7, 10], [8, 0], [9, 10], [2, 8], [6, 5], [10, 9], [1, 0]]
    else:
        pairs = [[a, b] for a in range(len(_PRIORITY)) for b in range(len(_PRIORITY)) if a != b]
    for c in range(0, len(pairs), 2):
        jobs.append(Job("candidates", {"pairs": pairs[c : c + 2], "nk": 2 if quick else 5}, T, 30, note="selector driven"))
    shapes = ["d.d", "-d.d", "dd.ddd", "d.dde+dd", "-d.de-dd", "de+dd", "de-dd", "d.ddde+ddd", "-de+dd", "dddd.d"]
    for sh in (shapes if not quick else shapes[:8]):
        jobs.append(Job("float_lex", {"shape": sh}, T, 30))
    jobs.append(Job("edge_float", {}, T, 30, note="selector driven, C functions on a concrete pool"))
    jobs.append(Job("edge_decimal", {}, T, 30, note="selector driven, C functions on a concrete pool"))
    jobs.append(Job("edge_lex", {}, T, 30, note="selector driven, C functions on a concrete pool"))
    jobs.append(Job("period_datatype", {}, T, 30, note="selector driven"))
    jobs.append(Job("registry_history", {}, T, 30, note="selector driven: every sequence of 4 registry operations"))
    jobs.append(Job("z_int_datatype", {}, 60, kind="z3"))
    return jobs


def qname_rt_witness(u, l, m):
    """Replay of the known finding with the exclusion switched off."""
    global _KNOWN_NONS
    saved, _KNOWN_NONS = _KNOWN_NONS, False
    try:
        return qname_rt(u, l, m)
    finally:
        _KNOWN_NONS = saved
