"""C06 - XML Schema date, time, duration and period types are exact.

Engine A drivers (CrossHair on the real DateTimeParser / from_string / __str__ / XmlPeriod / XmlDuration):
  parse_shape   every digit of one lexical *shape* is a symbolic variable; accepted <=> the independently
                computed components denote a real date / time of day, and the returned components equal them.
  fmt_rt        every component int symbolic: str(v) is an XSD lexical form (character level validator) and
                from_string(str(v)) returns the same components.
  std_conv      conversions to / from the datetime module preserve components and offset.
Engine B jobs (pyz3: current source -> z3):
  z_calendar    validate_date / validate_time raise <=> independent calendar predicate, for ALL ints.
  z_timeline    XmlDateTime / XmlTime == < <= > >= agree with an independent integer timeline position.
"""

from __future__ import annotations

import datetime as _dt

from harness.common import PART, known, result
from vlib.jobs import Job

from xsdata.models.datatype import XmlDate, XmlDateTime, XmlDuration, XmlPeriod, XmlTime

META = {
    "functions": [
        "xsdata.utils.dates:DateTimeParser.parse", "xsdata.utils.dates:DateTimeParser.parse_var",
        "xsdata.utils.dates:DateTimeParser.parse_year", "xsdata.utils.dates:DateTimeParser.parse_fractional_second",
        "xsdata.utils.dates:DateTimeParser.parse_digits", "xsdata.utils.dates:DateTimeParser.parse_minimum_digits",
        "xsdata.utils.dates:DateTimeParser.parse_fixed_digits", "xsdata.utils.dates:DateTimeParser.parse_offset",
        "xsdata.utils.dates:DateTimeParser.skip", "xsdata.utils.dates:parse_date_args",
        "xsdata.utils.dates:validate_date", "xsdata.utils.dates:validate_time", "xsdata.utils.dates:monthlen",
        "xsdata.utils.dates:format_date", "xsdata.utils.dates:format_time", "xsdata.utils.dates:format_offset",
        "xsdata.utils.dates:calculate_offset", "xsdata.utils.dates:calculate_timezone",
        "xsdata.models.datatype:XmlDate.from_string", "xsdata.models.datatype:XmlDate.__str__",
        "xsdata.models.datatype:XmlTime.from_string", "xsdata.models.datatype:XmlTime.__str__",
        "xsdata.models.datatype:XmlDateTime.from_string", "xsdata.models.datatype:XmlDateTime.__str__",
        "xsdata.models.datatype:XmlDateTime.duration", "xsdata.models.datatype:XmlTime.duration",
        "xsdata.models.datatype:_cmp", "xsdata.models.datatype:XmlPeriod._parse_period",
        "xsdata.models.datatype:XmlDuration._parse_interval",
        "xsdata.models.datatype:XmlDateTime.to_datetime", "xsdata.models.datatype:XmlDateTime.from_datetime",
        "xsdata.models.datatype:XmlDate.to_date", "xsdata.models.datatype:XmlDate.from_date",
        "xsdata.models.datatype:XmlTime.to_time", "xsdata.models.datatype:XmlTime.from_time",
    ],
    "bounds": [
        "parse: lexical shapes enumerated concretely (sign, year width 4-6, fraction width 0-9, offset none/Z/+hh:mm/-hh:mm, optional surrounding blanks); every digit symbolic",
        "format/round trip: |year| <= 999999, fraction 0..999999999, offset -840..840, all symbolic",
        "calendar (engine B): all integers (loop-free, no unrolling bound)",
        "timeline (engine B): |year| <= 9999, both offsets present (|offset| <= 840) or both absent",
        "duration: every subset of Y M D H M S components with 1-3 symbolic digits each, sign",
    ],
    "outside": [
        "years of more than 6 digits", "offsets beyond +-14:00 (not validated by the library, not demanded by the property)",
        "Feb 29 in years <= 0 (XSD 1.0 and 1.1 number BCE years differently)",
        "non-digit characters inside numeric fields (e.g. '+1' accepted by int()); Unicode digits",
        "comparison of values where exactly one has an offset (indeterminate in XSD)",
        "value of fractional seconds of xs:duration (float() is a C boundary)",
        "hour 24 equality for xs:time",
    ],
    "stubs": ["CrossHair model pack (chmodels): format/str/int digit models", "datetime: CrossHair's pure-Python datetime for naive std_conv; offset-aware conversions only on a concrete pool (std_conv_aware)"],
    "assumptions": ["z3 and CrossHair are sound for linear integer arithmetic and string/sequence theories used", "model pack validated against CPython on a boundary grid on every run"],
}

# ----------------------------------------------------------------------------- shape machinery
ND_MAX = 30


def _shape_digits(p):
    """Number of symbolic digits a partition's shape uses."""
    k = p.get("k")
    n = 0
    if k in ("date", "datetime"):
        n += p["yw"] + 4
    if k in ("time", "datetime"):
        n += 6 + p.get("fw", 0)
    if k == "period":
        g = p["g"]
        n += {"gYear": p.get("yw", 4), "gYearMonth": p.get("yw", 4) + 2, "gMonth": 2, "gMonthLegacy": 2, "gMonthDay": 4, "gDay": 2}[g]
    if k == "duration":
        n += sum(p["w"])
    if p.get("off") in ("+", "-"):
        n += 4
    return n


NDIG = _shape_digits(PART) if PART.get("k") in ("date", "time", "datetime", "period", "duration") else 0


def dok(d, i):
    if i >= NDIG:
        return True
    return 0 <= d <= 9


class _Cursor:
    def __init__(self, ds):
        self.ds, self.k, self.out = ds, 0, []

    def lit(self, s):
        self.out.append(s)

    def num(self, n):
        v = 0
        for _ in range(n):
            d = self.ds[self.k]
            self.k += 1
            self.out.append(chr(48 + d))
            v = v * 10 + d
        return v

    def text(self):
        return "".join(self.out)


def _leap(y):
    return y % 4 == 0 and (y % 100 != 0 or y % 400 == 0)


_MD = (0, 31, 28, 31, 30, 31, 30, 31, 31, 30, 31, 30, 31)


def _date_ok(y, m, d):
    if m < 1 or m > 12 or d < 1:
        return False
    if m == 2:
        return d <= (29 if _leap(y) else 28)
    if m in (4, 6, 9, 11):
        return d <= 30
    return d <= 31


def _time_ok(h, mi, s, f):
    if h > 24 or mi > 59 or s > 59:
        return False
    return h < 24 or (mi == 0 and s == 0 and f == 0)


def _offset(cur, kind):
    """Append an offset of the given kind; returns (in_domain, expected_offset)."""
    if kind == "":
        return True, None
    if kind == "Z":
        cur.lit("Z")
        return True, 0
    cur.lit(kind)
    hh = cur.num(2)
    cur.lit(":")
    mm = cur.num(2)
    ok = mm <= 59 and (hh < 14 or (hh == 14 and mm == 0))
    off = hh * 60 + mm
    return ok, (-off if kind == "-" else off)


def _year(cur, sign, yw):
    """Returns (lexically_valid, year)."""
    cur.lit(sign)
    first = cur.ds[cur.k]
    y = cur.num(yw)
    lex_ok = yw == 4 or first != 0  # more than four digits: no leading zero
    return lex_ok, (-y if sign == "-" else y)


def parse_shape(d0: int, d1: int, d2: int, d3: int, d4: int, d5: int, d6: int, d7: int, d8: int, d9: int, d10: int, d11: int, d12: int, d13: int, d14: int, d15: int, d16: int, d17: int, d18: int, d19: int, d20: int, d21: int, d22: int, d23: int, d24: int, d25: int, d26: int, d27: int, d28: int, d29: int) -> bool:
    """
    pre: dok(d0, 0)
    pre: dok(d1, 1)
    pre: dok(d2, 2)
    pre: dok(d3, 3)
    pre: dok(d4, 4)
    pre: dok(d5, 5)
    pre: dok(d6, 6)
    pre: dok(d7, 7)
    pre: dok(d8, 8)
    pre: dok(d9, 9)
    pre: dok(d10, 10)
    pre: dok(d11, 11)
    pre: dok(d12, 12)
    pre: dok(d13, 13)
    pre: dok(d14, 14)
    pre: dok(d15, 15)
    pre: dok(d16, 16)
    pre: dok(d17, 17)
    pre: dok(d18, 18)
    pre: dok(d19, 19)
    pre: dok(d20, 20)
    pre: dok(d21, 21)
    pre: dok(d22, 22)
    pre: dok(d23, 23)
    pre: dok(d24, 24)
    pre: dok(d25, 25)
    pre: dok(d26, 26)
    pre: dok(d27, 27)
    pre: dok(d28, 28)
    pre: dok(d29, 29)
    post: _
    """
    ds = [d0, d1, d2, d3, d4, d5, d6, d7, d8, d9, d10, d11, d12, d13, d14, d15, d16, d17, d18, d19, d20, d21, d22, d23, d24, d25, d26, d27, d28, d29]
    return _parse_shape(PART, ds)


def _parse_shape(p, ds):
    k = p["k"]
    cur = _Cursor(ds)
    pad = p.get("pad", "")
    cur.lit(pad)
    lex_ok = True
    y = mo = d = h = mi = s = f = None
    if k in ("date", "datetime"):
        lex_ok, y = _year(cur, p.get("sign", ""), p["yw"])
        cur.lit("-")
        mo = cur.num(2)
        cur.lit("-")
        d = cur.num(2)
    if k == "datetime":
        cur.lit("T")
    if k in ("time", "datetime"):
        h = cur.num(2)
        cur.lit(":")
        mi = cur.num(2)
        cur.lit(":")
        s = cur.num(2)
        fw = p.get("fw", 0)
        f = 0
        if fw:
            cur.lit(".")
            f = cur.num(fw) * 10 ** (9 - fw)
    in_dom, off = _offset(cur, p.get("off", ""))
    cur.lit(pad)
    if not in_dom:
        return True  # offsets beyond +-14:00: outside the claim
    text = cur.text()
    if "mg" in p:  # month-group partition (keeps the path tree of one job small)
        lo, hi = p["mg"]
        if lo == 0:
            if 1 <= mo <= 12:
                return True
        elif not (lo <= mo <= hi):
            return True
    cls = {"date": XmlDate, "time": XmlTime, "datetime": XmlDateTime}[k]
    # the real code runs first: its branches decide the path, the oracle below is then mostly determined
    try:
        v = cls.from_string(text)
        got = tuple(v)
    except ValueError:
        got = None
    if k in ("date", "datetime") and mo == 2 and d == 29 and y <= 0:
        return True  # BCE leap years: outside the claim
    valid = lex_ok
    if k in ("date", "datetime"):
        valid = valid and _date_ok(y, mo, d)
    if k in ("time", "datetime"):
        valid = valid and _time_ok(h, mi, s, f)
    if got is None:
        return result(not valid)
    if k == "date":
        expect = (y, mo, d, off)
    elif k == "time":
        expect = (h, mi, s, f, off)
    else:
        expect = (y, mo, d, h, mi, s, f, off)
    return result(valid and got == expect)


def period_shape(d0: int, d1: int, d2: int, d3: int, d4: int, d5: int, d6: int, d7: int, d8: int, d9: int, d10: int, d11: int) -> bool:
    """
    pre: dok(d0, 0)
    pre: dok(d1, 1)
    pre: dok(d2, 2)
    pre: dok(d3, 3)
    pre: dok(d4, 4)
    pre: dok(d5, 5)
    pre: dok(d6, 6)
    pre: dok(d7, 7)
    pre: dok(d8, 8)
    pre: dok(d9, 9)
    pre: dok(d10, 10)
    pre: dok(d11, 11)
    post: _
    """
    return _period_shape(PART, [d0, d1, d2, d3, d4, d5, d6, d7, d8, d9, d10, d11])


def _period_shape(p, ds):
    g = p["g"]
    cur = _Cursor(ds)
    pad = p.get("pad", "")
    cur.lit(pad)
    y = mo = d = None
    lex_ok = True
    if g in ("gYear", "gYearMonth"):
        lex_ok, y = _year(cur, p.get("sign", ""), p.get("yw", 4))
        if g == "gYearMonth":
            cur.lit("-")
            mo = cur.num(2)
    elif g in ("gMonth", "gMonthLegacy"):
        cur.lit("--")
        mo = cur.num(2)
        if g == "gMonthLegacy":
            cur.lit("--")
    elif g == "gMonthDay":
        cur.lit("--")
        mo = cur.num(2)
        cur.lit("-")
        d = cur.num(2)
    else:
        cur.lit("---")
        d = cur.num(2)
    in_dom, off = _offset(cur, p.get("off", ""))
    cur.lit(pad)
    if not in_dom:
        return True
    text = cur.text()
    try:
        v = XmlPeriod(text)
        got = (v.year, v.month, v.day, v.offset)
    except ValueError:
        got = None
    valid = lex_ok
    if mo is not None:
        valid = valid and 1 <= mo <= 12
    if d is not None:
        if mo is None:
            valid = valid and 1 <= d <= 31
        else:
            valid = valid and _date_ok(4, mo, d)  # gMonthDay: Feb 29 exists
    if got is None:
        return result(not valid)
    return result(valid and got == (y, mo, d, off))


_DUR_LET = "YMDHMS"


def duration_shape(d0: int, d1: int, d2: int, d3: int, d4: int, d5: int, d6: int, d7: int, d8: int, d9: int, d10: int, d11: int) -> bool:
    """
    pre: dok(d0, 0)
    pre: dok(d1, 1)
    pre: dok(d2, 2)
    pre: dok(d3, 3)
    pre: dok(d4, 4)
    pre: dok(d5, 5)
    pre: dok(d6, 6)
    pre: dok(d7, 7)
    pre: dok(d8, 8)
    pre: dok(d9, 9)
    pre: dok(d10, 10)
    pre: dok(d11, 11)
    post: _
    """
    return _duration_shape(PART, [d0, d1, d2, d3, d4, d5, d6, d7, d8, d9, d10, d11])


def _duration_shape(p, ds):
    """p['w'] = digit widths for Y M D H M S (0 = component absent); p['sign'] in ('', '-')."""
    w = p["w"]
    cur = _Cursor(ds)
    cur.lit(p.get("sign", ""))
    cur.lit("P")
    vals = []
    for i in range(6):
        if i == 3 and any(w[3:]):
            cur.lit("T")
        if w[i]:
            vals.append(cur.num(w[i]))
            cur.lit(_DUR_LET[i])
        else:
            vals.append(None)
    text = cur.text()
    valid = any(w)  # at least one component
    try:
        v = XmlDuration(text)
    except ValueError:
        return result(not valid)
    got = (v.years, v.months, v.days, v.hours, v.minutes)
    secs_ok = (v.seconds is None) if vals[5] is None else (v.seconds == vals[5])
    return result(valid and got == tuple(vals[:5]) and secs_ok and v.negative == (p.get("sign", "") == "-") and str(v) == text)


# ----------------------------------------------------------------------------- format / round trip
def _is_digits(s, lo, hi):
    if hi > len(s) or lo >= hi:
        return False
    for i in range(lo, hi):
        c = ord(s[i])  # integer comparison: decided by the solver without forking on string order
        if c < 48 or c > 57:
            return False
    return True


def _lex_offset(s, i):
    """XSD timezone at s[i:] (possibly empty)."""
    if i == len(s):
        return True
    if s[i] == "Z":
        return i + 1 == len(s)
    return len(s) == i + 6 and s[i] in "+-" and _is_digits(s, i + 1, i + 3) and s[i + 3] == ":" and _is_digits(s, i + 4, i + 6)


def _lex_date(s, i0=0):
    """Returns the index after [-]CCYY-MM-DD or -1."""
    i = i0
    if i < len(s) and s[i] == "-":
        i += 1
    j = i
    while j < len(s) and 48 <= ord(s[j]) <= 57:
        j += 1
    if j - i < 4 or (j - i > 4 and ord(s[i]) == 48):
        return -1
    if not (j + 6 <= len(s) and s[j] == "-" and _is_digits(s, j + 1, j + 3) and s[j + 3] == "-" and _is_digits(s, j + 4, j + 6)):
        return -1
    return j + 6


def _lex_time(s, i):
    """Returns the index after hh:mm:ss[.f{1,9}] or -1."""
    if not (i + 8 <= len(s) and _is_digits(s, i, i + 2) and s[i + 2] == ":" and _is_digits(s, i + 3, i + 5) and s[i + 5] == ":" and _is_digits(s, i + 6, i + 8)):
        return -1
    j = i + 8
    if j < len(s) and s[j] == ".":
        k = j + 1
        while k < len(s) and 48 <= ord(s[k]) <= 57:
            k += 1
        if k == j + 1 or k - j - 1 > 9:
            return -1
        return k
    return j


def _off_arg(sel, off):
    if "offv" in PART:
        return PART["offv"]
    kind = PART.get("off", "")
    if kind == "":
        return None
    if kind == "Z":
        return 0
    return off


def _mg_pre(mo):
    lo, hi = PART.get("mg", (1, 12))
    return lo <= mo <= hi


def _fc_pre(f):
    """Partition of the fraction range by the branch format_time takes (keeps one job's path tree small)."""
    fc = PART.get("fc")
    if fc is None:
        return True
    if fc == 0:
        return f == 0
    if fc == 1:
        return f % 1000 != 0
    if fc == 2:
        return f % 1000 == 0 and f % 1000000 != 0
    return f != 0 and f % 1000000 == 0


def _off_pre(off):
    if "offv" in PART:
        return off == PART["offv"]
    kind = PART.get("off", "")
    if kind == "+":
        return 1 <= off <= 840
    if kind == "-":
        return -840 <= off <= -1
    return off == 0


def fmt_rt_time(h: int, mi: int, s: int, f: int, off: int) -> bool:
    """
    pre: 0 <= h <= 24
    pre: 0 <= mi <= 59
    pre: 0 <= s <= 59
    pre: 0 <= f <= 999999999
    pre: h < 24 or (mi == 0 and s == 0 and f == 0)
    pre: _fc_pre(f)
    pre: _off_pre(off)
    post: _
    """
    o = _off_arg(0, off)
    v = XmlTime(h, mi, s, f, o)
    text = str(v)
    j = _lex_time(text, 0)
    if j < 0 or not _lex_offset(text, j):
        return result(False)
    w = XmlTime.from_string(text)
    return result(tuple(w) == (h, mi, s, f, o))


def fmt_rt_date(y: int, mo: int, d: int, off: int) -> bool:
    """
    pre: -999999 <= y <= 999999
    pre: 1 <= mo <= 12
    pre: 1 <= d <= 31
    pre: _date_ok(y, mo, d)
    pre: _off_pre(off)
    post: _
    """
    o = _off_arg(0, off)
    v = XmlDate(y, mo, d, o)
    text = str(v)
    j = _lex_date(text)
    if j < 0 or not _lex_offset(text, j):
        return result(False)
    w = XmlDate.from_string(text)
    return result(tuple(w) == (y, mo, d, o))


def fmt_rt_datetime(y: int, mo: int, d: int, h: int, mi: int, s: int, f: int, off: int) -> bool:
    """
    pre: -999999 <= y <= 999999
    pre: _mg_pre(mo)
    pre: 1 <= d <= 31
    pre: _date_ok(y, mo, d)
    pre: 0 <= h <= 24
    pre: 0 <= mi <= 59
    pre: 0 <= s <= 59
    pre: 0 <= f <= 999999999
    pre: h < 24 or (mi == 0 and s == 0 and f == 0)
    pre: _fc_pre(f)
    pre: _off_pre(off)
    post: _
    """
    o = _off_arg(0, off)
    v = XmlDateTime(y, mo, d, h, mi, s, f, o)
    text = str(v)
    j = _lex_date(text)
    if j < 0 or j >= len(text) or text[j] != "T":
        return result(False)
    k = _lex_time(text, j + 1)
    if k < 0 or not _lex_offset(text, k):
        return result(False)
    w = XmlDateTime.from_string(text)
    return result(tuple(w) == (y, mo, d, h, mi, s, f, o))


# ----------------------------------------------------------------------------- stdlib conversions
def std_conv_datetime(y: int, mo: int, d: int, h: int, mi: int, s: int, us: int, off: int) -> bool:
    """
    pre: 1 <= y <= 9999
    pre: 1 <= mo <= 12
    pre: 1 <= d <= 28
    pre: 0 <= h <= 23
    pre: 0 <= mi <= 59
    pre: 0 <= s <= 59
    pre: 0 <= us <= 999999
    pre: _off_pre(off)
    post: _
    """
    o = _off_arg(0, off)
    v = XmlDateTime(y, mo, d, h, mi, s, us * 1000, o)
    t = v.to_datetime()
    comp = (t.year, t.month, t.day, t.hour, t.minute, t.second, t.microsecond)
    uo = t.utcoffset()
    off_ok = (uo is None) if o is None else (uo is not None and uo == _dt.timedelta(minutes=o))
    back = XmlDateTime.from_datetime(t)
    return result(comp == (y, mo, d, h, mi, s, us) and off_ok and tuple(back) == (y, mo, d, h, mi, s, us * 1000, o))


def std_conv_time(h: int, mi: int, s: int, us: int, off: int) -> bool:
    """
    pre: 0 <= h <= 23
    pre: 0 <= mi <= 59
    pre: 0 <= s <= 59
    pre: 0 <= us <= 999999
    pre: _off_pre(off)
    post: _
    """
    o = _off_arg(0, off)
    v = XmlTime(h, mi, s, us * 1000, o)
    t = v.to_time()
    uo = t.utcoffset()
    off_ok = (uo is None) if o is None else (uo is not None and uo == _dt.timedelta(minutes=o))
    back = XmlTime.from_time(t)
    return result((t.hour, t.minute, t.second, t.microsecond) == (h, mi, s, us) and off_ok and tuple(back) == (h, mi, s, us * 1000, o))


def std_conv_date(y: int, mo: int, d: int, off: int) -> bool:
    """
    pre: 1 <= y <= 9999
    pre: 1 <= mo <= 12
    pre: 1 <= d <= 28
    pre: _off_pre(off)
    post: _
    """
    o = _off_arg(0, off)
    v = XmlDate(y, mo, d, o)
    t = v.to_date()
    t2 = v.to_datetime()
    uo = t2.utcoffset()
    off_ok = (uo is None) if o is None else (uo is not None and uo == _dt.timedelta(minutes=o))
    back = XmlDate.from_datetime(t2)
    back2 = XmlDate.from_date(t)
    return result((t.year, t.month, t.day) == (y, mo, d) and (t2.year, t2.month, t2.day, t2.hour, t2.minute) == (y, mo, d, 0, 0)
                  and off_ok and tuple(back) == (y, mo, d, o) and tuple(back2) == (y, mo, d, None))


_FRACS = [0, 1, 999, 1000, 1001, 499999, 500000, 999999, 1000000, 123456789, 999999499, 999999500, 999999999]


def std_conv_frac(i: int) -> bool:
    """
    pre: 0 <= i < len(_FRACS)
    post: _
    """
    # sub-microsecond digits cannot be represented by datetime: the conversion must still succeed and keep the whole microseconds
    from harness.common import concretize, untraced

    ci = concretize(i, len(_FRACS))
    with untraced():
        fs = _FRACS[ci]
        t = XmlTime(23, 59, 59, fs).to_time()
        dt = XmlDateTime(2021, 12, 31, 23, 59, 59, fs, 60).to_datetime()
        return result(t.microsecond == fs // 1000 and dt.microsecond == fs // 1000 and (t.hour, t.minute, t.second) == (23, 59, 59) and dt.day == 31)


_AW_DATES = [(1, 1, 1), (1970, 1, 1), (2024, 2, 29), (9999, 12, 31), (1900, 2, 28)]
_AW_TIMES = [(0, 0, 0, 0), (23, 59, 59, 999999), (12, 30, 15, 1000), (0, 0, 0, 1)]
_AW_OFFS = [0, 1, -1, 60, 345, -330, 840, -840, 839]


def std_conv_aware(i: int, j: int, k: int) -> bool:
    """
    pre: i == PART.get("i", 0)
    pre: 0 <= j < PART.get("nj", 4)
    pre: 0 <= k < PART.get("nk", 9)
    post: _
    """
    # Selector driven (bounded-exhaustive): CrossHair realises a symbolic datetime as soon as utcoffset() meets the C
    # timezone class (datetimelib._realized_if_concrete_tzinfo), so offset-aware conversions cannot stay value-symbolic.
    y, mo, d = _AW_DATES[i]
    h, mi, s, us = _AW_TIMES[j]
    o = _AW_OFFS[k]
    v = XmlDateTime(y, mo, d, h, mi, s, us * 1000, o)
    t = v.to_datetime()
    ok = (t.year, t.month, t.day, t.hour, t.minute, t.second, t.microsecond) == (y, mo, d, h, mi, s, us)
    ok = ok and t.utcoffset() == _dt.timedelta(minutes=o) and tuple(XmlDateTime.from_datetime(t)) == (y, mo, d, h, mi, s, us * 1000, o)
    # same instant: the UTC timestamp difference to the naive reading is exactly the offset
    naive = _dt.datetime(y, mo, d, h, mi, s, us)
    ok = ok and (t.replace(tzinfo=None) - naive) == _dt.timedelta(0)
    tt = XmlTime(h, mi, s, us * 1000, o).to_time()
    ok = ok and (tt.hour, tt.minute, tt.second, tt.microsecond) == (h, mi, s, us) and tt.utcoffset() == _dt.timedelta(minutes=o)
    ok = ok and tuple(XmlTime.from_time(tt)) == (h, mi, s, us * 1000, o)
    dd = XmlDate(y, mo, d, o).to_datetime()
    ok = ok and (dd.year, dd.month, dd.day, dd.hour) == (y, mo, d, 0) and dd.utcoffset() == _dt.timedelta(minutes=o)
    ok = ok and tuple(XmlDate.from_datetime(dd)) == (y, mo, d, o)
    return result(ok)


# ----------------------------------------------------------------------------- engine B
def _days(y, m, d, If, leap):
    """Independent day number (proleptic Gregorian, astronomical years); works on z3 terms and ints."""
    yy = y - 1
    cum = (0, 0, 31, 59, 90, 120, 151, 181, 212, 243, 273, 304, 334)
    base = 365 * yy + _fdiv(yy, 4) - _fdiv(yy, 100) + _fdiv(yy, 400)
    c = cum[12]
    for k in range(11, 0, -1):
        c = If(m == k, cum[k], c)
    return base + c + If(_and(m > 2, leap(y)), 1, 0) + d


def _fdiv(a, b):
    import z3

    return a / b if isinstance(a, z3.ExprRef) else a // b


def _and(a, b):
    import z3

    if isinstance(a, z3.ExprRef) or isinstance(b, z3.ExprRef):
        return z3.And(a, b)
    return a and b


def py_timeline_key(kind, f):
    """Pure-Python timeline key in nanoseconds (oracle used by the concrete replay)."""
    if kind == "datetime":
        y, mo, d, h, mi, s, fs, off = f
        days = _days(y, mo, d, lambda c, a, b: a if c else b, _leap)
        secs = days * 86400 + h * 3600 + mi * 60 + s - (off or 0) * 60
    else:
        h, mi, s, fs, off = f
        secs = h * 3600 + mi * 60 + s - (off or 0) * 60
    return secs * 10**9 + fs


def cmp_replay(kind, a, b):
    """Concrete replay: real comparison operators vs the independent timeline key."""
    cls = XmlDateTime if kind == "datetime" else XmlTime
    va, vb = cls(*a), cls(*b)
    ka, kb = py_timeline_key(kind, a), py_timeline_key(kind, b)
    return ((va < vb) == (ka < kb) and (va <= vb) == (ka <= kb) and (va == vb) == (ka == kb)
            and (va > vb) == (ka > kb) and (va >= vb) == (ka >= kb) and (va != vb) == (ka != kb))


def calendar_replay(fn, *args):
    from xsdata.utils import dates

    if fn == "validate_date":
        y, m, d = args
        try:
            dates.validate_date(y, m, d)
            raised = False
        except ValueError:
            raised = True
        return raised == (not _date_ok(y, m, d))
    h, mi, s, f = args
    try:
        dates.validate_time(h, mi, s, f)
        raised = False
    except ValueError:
        raised = True
    ok = 0 <= h <= 24 and 0 <= mi <= 59 and 0 <= s <= 59 and 0 <= f <= 999999999 and (h < 24 or (mi == 0 and s == 0 and f == 0))
    return raised == (not ok)


def z_calendar(part, timeout):
    import z3

    from pyz3 import Translator, raise_condition
    from pyz3.query import QuerySet
    from xsdata.utils import dates

    qs = QuerySet(timeout)
    tr = Translator()
    y, m, d = z3.Ints("y m d")
    outs = tr.call(dates.validate_date, [y, m, d])
    raises = raise_condition(outs)
    other = raise_condition([o for o in outs if o.kind == "raise" and o.value != "ValueError"])
    leap = z3.And(y % 4 == 0, z3.Or(y % 100 != 0, y % 400 == 0))
    mlen = z3.If(m == 2, z3.If(leap, 29, 28), z3.If(z3.Or(m == 4, m == 6, m == 9, m == 11), 30, 31))
    valid = z3.And(m >= 1, m <= 12, d >= 1, d <= mlen)
    qs.check("validate_date raises <=> not a calendar date (all ints)", z3.BoolVal(raises) == valid if isinstance(raises, bool) else raises == valid, [y, m, d],
             replay_fn="calendar_replay", decode=lambda v: ["validate_date", v["y"], v["m"], v["d"]])
    if other is not False:
        qs.check("validate_date raises only ValueError", other, [y, m, d], replay_fn="calendar_replay", decode=lambda v: ["validate_date", v["y"], v["m"], v["d"]])
    qs.witness("validate_date accepts something", z3.Not(raises) if not isinstance(raises, bool) else z3.BoolVal(not raises))
    qs.witness("validate_date rejects something", raises if not isinstance(raises, bool) else z3.BoolVal(raises))
    h, mi, s, f = z3.Ints("h mi s f")
    outs = tr.call(dates.validate_time, [h, mi, s, f])
    raises = raise_condition(outs)
    valid = z3.And(h >= 0, h <= 24, mi >= 0, mi <= 59, s >= 0, s <= 59, f >= 0, f <= 999999999, z3.Or(h < 24, z3.And(mi == 0, s == 0, f == 0)))
    qs.check("validate_time raises <=> not a time of day (all ints)", raises == valid, [h, mi, s, f],
             replay_fn="calendar_replay", decode=lambda v: ["validate_time", v["h"], v["mi"], v["s"], v["f"]])
    qs.witness("validate_time accepts something", z3.Not(raises))
    # monthlen agrees with the independent month length on 1..12
    outs = tr.call(dates.monthlen, [y, m])
    from pyz3 import return_value

    ml = return_value(outs)
    qs.check("monthlen == independent month length for 1 <= m <= 12", z3.And(m >= 1, m <= 12, ml != mlen), [y, m], replay_fn="calendar_replay",
             decode=lambda v: ["validate_date", v["y"], v["m"], 29 if v["m"] == 2 else 31])
    return qs.result({"functions": sorted(tr.functions_seen)})


def z_timeline(part, timeout):
    import z3

    from pyz3 import SymObj, Translator, Unsupported, raise_condition, return_value
    from pyz3.query import QuerySet

    kind = part["kind"]  # datetime | time
    offs = part["offs"]  # "none" | "both"
    qs = QuerySet(timeout)
    cls = XmlDateTime if kind == "datetime" else XmlTime
    fields = cls._fields
    ymax = part.get("ymax", 9999)

    def mk(prefix, frac):
        vs = {}
        cons = []
        for fname in fields:
            if fname == "offset":
                if offs == "none":
                    vs[fname] = None
                else:
                    v = z3.Int(prefix + fname)
                    vs[fname] = v
                    cons += [v >= -840, v <= 840]
            elif fname == "fractional_second" and not frac:
                vs[fname] = 0
            else:
                vs[fname] = z3.Int(prefix + fname)
        g = vs.get
        if kind == "datetime":
            y, mo, d = g("year"), g("month"), g("day")
            leap = z3.And(y % 4 == 0, z3.Or(y % 100 != 0, y % 400 == 0))
            mlen = z3.If(mo == 2, z3.If(leap, 29, 28), z3.If(z3.Or(mo == 4, mo == 6, mo == 9, mo == 11), 30, 31))
            cons += [y >= -ymax, y <= ymax, mo >= 1, mo <= 12, d >= 1, d <= mlen]
        h, mi, s, fs = g("hour"), g("minute"), g("second"), g("fractional_second")
        cons += [h >= 0, h <= 24, mi >= 0, mi <= 59, s >= 0, s <= 59]
        if frac:
            cons += [fs >= 0, fs <= 999999999, z3.Or(h < 24, z3.And(mi == 0, s == 0, fs == 0))]
        else:
            cons += [z3.Or(h < 24, z3.And(mi == 0, s == 0))]
        return vs, cons

    def key(vs):
        g = vs.get
        off = g("offset")
        off = 0 if off is None else off
        if kind == "datetime":
            y = g("year")
            leapf = lambda yy: z3.And(yy % 4 == 0, z3.Or(yy % 100 != 0, yy % 400 == 0))  # noqa: E731
            days = _days(y, g("month"), g("day"), z3.If, leapf)
            secs = days * 86400 + g("hour") * 3600 + g("minute") * 60 + g("second") - off * 60
        else:
            secs = g("hour") * 3600 + g("minute") * 60 + g("second") - off * 60
        return secs * 1000000000 + g("fractional_second")

    detail = {}
    for frac in (True, False):
        tr = Translator()
        va, ca = mk("a_", frac)
        vb, cb = mk("b_", frac)
        a, b = SymObj(cls, **va), SymObj(cls, **vb)
        try:
            ops = {}
            for name in ("__lt__", "__le__", "__eq__", "__gt__", "__ge__", "__ne__"):
                outs = tr.call(getattr(cls, name), [a, b])
                rc = raise_condition(outs)
                if rc is not False:
                    raise Unsupported("comparison may raise")
                ops[name] = return_value(outs)
        except Unsupported as e:
            detail["fractional_seconds" if frac else "whole_seconds"] = f"unsupported by translator: {e}"
            if not frac:
                qs.unsupported.append(str(e))
            continue
        detail["domain"] = "fractional seconds symbolic" if frac else "fractional_second == 0 (float key: integer-exact sub-domain only; fractional domain INCONCLUSIVE by construction)"
        detail["functions"] = sorted(tr.functions_seen)
        ka, kb = key(va), key(vb)
        zvars = [v for v in list(va.values()) + list(vb.values()) if isinstance(v, z3.ExprRef)]

        def decode(vals, va=va, vb=vb):
            def tup(vs, pre):
                return [vals[pre + f] if isinstance(vs[f], z3.ExprRef) else vs[f] for f in fields]
            return [kind, tup(va, "a_"), tup(vb, "b_")]

        import operator as op

        pyop = {"__lt__": op.lt, "__le__": op.le, "__eq__": op.eq, "__gt__": op.gt, "__ge__": op.ge, "__ne__": op.ne}
        for name, term in ops.items():
            want = pyop[name](ka, kb)
            qs.check(f"{cls.__name__}.{name} <=> timeline ({offs} offsets, frac={frac})", term != want, zvars, replay_fn="cmp_replay", decode=decode, assumptions=ca + cb)
        qs.witness("domain satisfiable and < reachable", z3.And(*(ca + cb + [ops["__lt__"]])))
        if not frac:
            qs.unknown.append("fractional seconds in comparisons: float key not encodable (QF_FP with int->float conversions: z3 unknown)")
        break
    return qs.result(detail)


def z_timeline_lemma(part, timeout):
    """Lemma route for large year ranges (only if the current source compares through a unary key function).

    L1: key_code(x) - key_oracle(x) is one constant for every valid x with |year| <= ymax   (unary, cheap)
    L2: each comparison operator is literally op(key_code(a), key_code(b))                     (congruence)
    L1 and L2 together give: operator <=> oracle timeline order, for |year| <= ymax.
    """
    import operator as op

    import z3

    from pyz3 import SymObj, Translator, Unsupported, raise_condition, return_value
    from pyz3.query import QuerySet
    from xsdata.models import datatype

    kind = part["kind"]
    ymax = part.get("ymax", 10**6)
    qs = QuerySet(timeout)
    cls = XmlDateTime if kind == "datetime" else XmlTime
    fields = cls._fields
    keyfn = getattr(datatype, "_timeline_key", None)
    if keyfn is None:
        qs.unknown.append("not applicable on this tree: no unary key function `_timeline_key` in xsdata.models.datatype (the direct bounded query z_timeline decides alone)")
        return qs.result()

    def mk(prefix):
        vs = {f: z3.Int(prefix + f) for f in fields}
        g = vs.get
        cons = []
        if kind == "datetime":
            y, mo, d = g("year"), g("month"), g("day")
            leap = z3.And(y % 4 == 0, z3.Or(y % 100 != 0, y % 400 == 0))
            mlen = z3.If(mo == 2, z3.If(leap, 29, 28), z3.If(z3.Or(mo == 4, mo == 6, mo == 9, mo == 11), 30, 31))
            cons += [y >= -ymax, y <= ymax, mo >= 1, mo <= 12, d >= 1, d <= mlen]
        h, mi, s_, fs, off = g("hour"), g("minute"), g("second"), g("fractional_second"), g("offset")
        cons += [h >= 0, h <= 24, mi >= 0, mi <= 59, s_ >= 0, s_ <= 59, fs >= 0, fs <= 999999999, z3.Or(h < 24, z3.And(mi == 0, s_ == 0, fs == 0)), off >= -840, off <= 840]
        return vs, cons

    def okey(vs):
        g = vs.get
        if kind == "datetime":
            leapf = lambda yy: z3.And(yy % 4 == 0, z3.Or(yy % 100 != 0, yy % 400 == 0))  # noqa: E731
            secs = _days(g("year"), g("month"), g("day"), z3.If, leapf) * 86400
        else:
            secs = 0
        secs = secs + g("hour") * 3600 + g("minute") * 60 + g("second") - g("offset") * 60
        return secs * 1000000000 + g("fractional_second")

    tr = Translator()
    va, ca = mk("a_")
    vb, cb = mk("b_")
    a, b = SymObj(cls, **va), SymObj(cls, **vb)
    try:
        ka = return_value(tr.call(keyfn, [a]))
        kb = return_value(tr.call(keyfn, [b]))
        ops = {}
        for name in ("__lt__", "__le__", "__eq__", "__gt__", "__ge__", "__ne__"):
            outs = tr.call(getattr(cls, name), [a, b])
            if raise_condition(outs) is not False:
                raise Unsupported("comparison may raise")
            ops[name] = return_value(outs)
    except Unsupported as e:
        qs.unsupported.append(str(e))
        return qs.result()
    ref = dict(zip(fields, (1, 1, 1, 0, 0, 0, 0, 0) if kind == "datetime" else (0, 0, 0, 0, 0)))
    pairs = [(va[f], z3.IntVal(ref[f])) for f in fields]
    cval = z3.simplify(z3.substitute(ka - okey(va), *pairs))
    zv = list(va.values()) + list(vb.values())

    def decode(vals):
        return [kind, [vals["a_" + f] for f in fields], [vals.get("b_" + f, ref[f]) for f in fields]]

    sol = z3.Solver()
    sol.set("timeout", 60000)
    sol.add(*ca)
    sol.add(ka - okey(va) != cval)
    qs.queries += 1
    r1 = str(sol.check())
    if r1 != "unsat":
        # a failed lemma is not a violation by itself (a different but order-isomorphic key would be fine): the direct query decides
        qs.unknown.append(f"L1 {kind}: key_code - key_oracle is not constant ({r1}); lemma route not applicable, z_timeline (direct) decides")
        return qs.result({"functions": sorted(tr.functions_seen), "ymax": ymax})
    pyop = {"__lt__": op.lt, "__le__": op.le, "__eq__": op.eq, "__gt__": op.gt, "__ge__": op.ge, "__ne__": op.ne}
    for name, term in ops.items():
        qs.check(f"L2 {cls.__name__}.{name} == op(key_code(a), key_code(b))", term != pyop[name](ka, kb), zv, replay_fn="cmp_replay", decode=decode, assumptions=ca + cb)
    qs.witness("domain satisfiable", z3.And(*(ca + cb + [ops["__lt__"]])))
    return qs.result({"functions": sorted(tr.functions_seen), "ymax": ymax})


PRE = {}


EXPLAIN = {}

# ----------------------------------------------------------------------------- plan
_OFFS = ["", "Z", "+", "-"]
_MGS = [[0, 0], [1, 4], [5, 8], [9, 12]]


def plan(tier):
    import itertools

    jobs = []
    quick = tier == "quick"
    T = 200 if quick else 900
    # --- parse shapes
    fws = [0, 1, 3, 9] if quick else list(range(10))
    for fw in fws:
        for off in (_OFFS if not quick else (["", "+"] if fw in (1, 3) else _OFFS)):
            jobs.append(Job("parse_shape", {"k": "time", "fw": fw, "off": off}, T, 30))
    jobs.append(Job("parse_shape", {"k": "time", "fw": 0, "off": "Z", "pad": " "}, T, 30))
    for sign in ("", "-"):
        for yw in (4, 5, 6):
            for off in (_OFFS if not quick else (["", "-"] if (sign, yw) != ("", 4) else ["", "Z", "+"])):
                jobs.append(Job("parse_shape", {"k": "date", "sign": sign, "yw": yw, "off": off}, T, 30))
    jobs.append(Job("parse_shape", {"k": "date", "sign": "", "yw": 4, "off": "", "pad": " "}, T, 30))
    if quick:
        dts = [("", 4, 0, ""), ("-", 5, 3, "Z")]
    else:
        dts = [(sg, yw, fw, off) for sg in ("", "-") for yw in (4, 5, 6) for fw in (0, 1, 3, 6, 9) for off in _OFFS]
    for sg, yw, fw, off in dts:
        for mg in [[0, 0], [1, 2], [3, 7], [8, 12]]:
            jobs.append(Job("parse_shape", {"k": "datetime", "sign": sg, "yw": yw, "fw": fw, "off": off, "mg": mg}, T * 2, 40))
    # --- periods
    for g in ("gYear", "gYearMonth", "gMonth", "gMonthLegacy", "gMonthDay", "gDay"):
        variants = [("", 4)] if g not in ("gYear", "gYearMonth") else ([("", 4), ("-", 4), ("", 5)] if quick else [(sg, yw) for sg in ("", "-") for yw in (4, 5, 6)])
        for sg, yw in variants:
            for off in (_OFFS if not quick else ["", "Z", "-"]):
                jobs.append(Job("period_shape", {"k": "period", "g": g, "sign": sg, "yw": yw, "off": off}, T, 30))
    # --- durations: subsets of components
    if quick:
        ws = [[1, 0, 0, 0, 0, 0], [0, 2, 0, 0, 0, 0], [0, 0, 1, 0, 0, 0], [0, 0, 0, 1, 0, 0], [0, 0, 0, 0, 2, 0], [0, 0, 0, 0, 0, 1],
              [1, 1, 1, 1, 1, 1], [2, 0, 1, 0, 0, 2], [0, 1, 0, 0, 1, 0], [0, 0, 0, 0, 0, 0], [3, 0, 0, 3, 0, 0]]
        signs = [""]
    else:
        ws = [list(w) for w in itertools.product((0, 1), repeat=6)] + [[2, 2, 2, 2, 2, 2], [3, 0, 3, 0, 0, 3], [0, 3, 0, 3, 3, 0]]
        signs = ["", "-"]
    for w in ws:
        for sg in signs:
            jobs.append(Job("duration_shape", {"k": "duration", "w": w, "sign": sg}, T, 30))
    jobs.append(Job("duration_shape", {"k": "duration", "w": [1, 0, 0, 0, 1, 0], "sign": "-"}, T, 30))
    # --- format / round trip (partitioned by offset kind and by the branch format_time takes)
    for off in _OFFS:
        for fc in range(4):
            if quick and off in ("Z", "-") and fc in (2, 3):
                continue
            jobs.append(Job("fmt_rt_time", {"off": off, "fc": fc}, T, 30))
        if not quick or off in ("", "-"):
            jobs.append(Job("fmt_rt_date", {"off": off}, T, 30))
    for off in (_OFFS if not quick else ["-"]):
        for fc in (range(4) if not quick else (0, 1)):
            for mg in [[1, 2], [3, 7], [8, 12]]:
                jobs.append(Job("fmt_rt_datetime", {"off": off, "fc": fc, "mg": mg}, T * 2, 40))
    # --- stdlib conversions (offset from a concrete pool: timezone()/timedelta normalisation forks heavily on a symbolic offset)
    jobs.append(Job("std_conv_datetime", {"off": ""}, T, 30, note="naive values: all components symbolic"))
    jobs.append(Job("std_conv_time", {"off": ""}, T, 30, note="naive values: all components symbolic"))
    jobs.append(Job("std_conv_date", {"off": ""}, T, 30, note="naive values: all components symbolic"))
    jobs.append(Job("std_conv_frac", {}, T, 30, note="selector driven: sub-microsecond fractions"))
    for i in range(len(_AW_DATES) if not quick else 3):
        jobs.append(Job("std_conv_aware", {"i": i, "nj": 2 if quick else 4, "nk": 6 if quick else 9}, T, 30, note="offset-aware values: selector-driven enumeration of a concrete pool (C timezone realises symbolic datetimes)"))
    # --- engine B
    jobs.append(Job("z_calendar", {}, 120, kind="z3"))
    for kind in ("datetime", "time"):
        for offs in ("none", "both"):
            jobs.append(Job("z_timeline", {"kind": kind, "offs": offs, "ymax": 400 if quick else 2000}, 200 if quick else 1500, kind="z3"))
        jobs.append(Job("z_timeline_lemma", {"kind": kind, "ymax": 10**6}, 120, kind="z3"))
    return jobs
