"""C07 - the code generator produces importable, bindable code: NAMES AND REFERENCES ONLY (DESIGN.md §5 C07).

Rendering needs jinja2, which is absent: "files written / modules import / classes instantiate" is NOT decided here.
What is decided: every identifier the generator would emit is a valid, non-reserved Python identifier; after the real
analysis pipeline no two fields of a class and no two classes of a module share a rendered name; every type reference
resolves; only CodegenError may escape.  Names are selectors into hostile pools (hashing / regex realise symbolic strings).
"""

from __future__ import annotations

import keyword

from harness.common import PART, concretize, result, untraced
from vlib import shims
from vlib.jobs import Job

shims.install()

from xsdata.codegen.container import ClassContainer  # noqa: E402
from xsdata.codegen.exceptions import CodegenError  # noqa: E402
from xsdata.formats.dataclass.filters import Filters  # noqa: E402
from xsdata.models.config import GeneratorConfig, NameCase, StructureStyle  # noqa: E402
from xsdata.utils import text  # noqa: E402

META = {
    "functions": [
        "xsdata.formats.dataclass.filters:Filters.safe_name", "xsdata.formats.dataclass.filters:Filters.class_name", "xsdata.formats.dataclass.filters:Filters.field_name",
        "xsdata.formats.dataclass.filters:Filters.constant_name", "xsdata.formats.dataclass.filters:Filters.module_name", "xsdata.formats.dataclass.filters:Filters.package_name",
        "xsdata.utils.text:split_words", "xsdata.utils.text:classify", "xsdata.utils.text:alnum", "xsdata.utils.text:original_case", "xsdata.utils.text:pascal_case",
        "xsdata.utils.text:camel_case", "xsdata.utils.text:snake_case", "xsdata.utils.text:mixed_case", "xsdata.utils.namespaces:clean_uri",
        "xsdata.codegen.utils:ClassUtils.rename_duplicate_attributes", "xsdata.codegen.utils:ClassUtils.rename_attribute_by_preference", "xsdata.codegen.utils:ClassUtils.rename_attributes_by_index",
        "xsdata.codegen.handlers.rename_duplicate_classes:RenameDuplicateClasses.run", "xsdata.codegen.handlers.rename_duplicate_attributes:RenameDuplicateAttributes.process",
        "xsdata.codegen.handlers.designate_class_packages:DesignateClassPackages.run", "xsdata.codegen.handlers.validate_references:ValidateReferences.run",
        "xsdata.codegen.container:ClassContainer.process", "xsdata.codegen.mappers.dict:DictMapper.map", "xsdata.codegen.mappers.schema:SchemaMapper.map",
        "xsdata.codegen.parsers.schema:SchemaParser.from_string", "xsdata.codegen.resolver:DependenciesResolver.process",
    ],
    "bounds": [
        "identifier kernel: names = sequences of <= 3 symbols over a 19-symbol class-representative alphabet (a B 1 _ - . space é ² class None type value 9x Class IN def_ any From), every NameCase, default and two alternative safe prefixes",
        "pipeline: hostile name triples from pools of ~22 (JSON keys via DictMapper; NCName-legal element / attribute / type names of a tiny XSD via SchemaParser+SchemaMapper), then the REAL ClassContainer.process() and Filters, "
        "for structure styles x compound fields x unnest as partitions",
        "pipeline_graph: all 64 reference graphs on three named complex types (chains, 2- and 3-cycles) x structure styles: cluster designation and the imports that follow",
        "pipeline_multi: a set of three schemas (two imported namespaces / files + an importing one); type-name triples from a pool of 12 (equal, case-colliding, reserved, punctuated), references inside a repeating choice or a sequence, "
        "optional cross-reference between the imported schemas; mapped in ResourceTransformer order",
        "module scoping oracle (harness/multins.scope_problem): per module every import (alias or name) and class is bound once and every type reference - attribute types, compound choice types, extensions - rendered as class_name(alias or name) is bound to the class it means",
        "selector driven: finite pools enumerated through the solver's forking; each path runs concretely",
    ],
    "outside": ["generation terminating with files written, modules importing, classes instantiating (jinja2 absent: rendering cannot run) - i.e. most of the property's wording",
                "DTD / WSDL sources, XML samples", "names outside the pools"],
    "stubs": ["absent-package shims for click, jinja2, toposort (import-time only)"],
    "assumptions": [],
}

from harness.common import known  # noqa: E402

_KNOWN_ORIGINAL = known("C07-original-case-nonidentifier")
_KNOWN_PREFIX = known("C07-safe-prefix-collision")
ALPHA = ["a", "B", "1", "_", "-", ".", " ", "é", "²", "class", "None", "type", "value", "9x", "Class", "IN", "def_", "any", "From"]
PREFIXES = [("value", "type", "mod", "pkg"), ("x", "T", "m", "p"), ("class", "None", "type", "in")]


def _ident_ok(s, allow_dots=False):
    if allow_dots:
        return all(_ident_ok(p) for p in s.split(".")) if s else True
    return isinstance(s, str) and s.isidentifier() and not keyword.iskeyword(s)


def _filters(case_field, case_class, prefixes):
    cfg = GeneratorConfig()
    cfg.conventions.field_name.case = case_field
    cfg.conventions.class_name.case = case_class
    cfg.conventions.constant_name.case = case_field
    cfg.conventions.field_name.safe_prefix = prefixes[0]
    cfg.conventions.constant_name.safe_prefix = prefixes[0]
    cfg.conventions.class_name.safe_prefix = prefixes[1]
    cfg.conventions.module_name.safe_prefix = prefixes[2]
    cfg.conventions.package_name.safe_prefix = prefixes[3]
    return Filters(cfg)


CASES = list(NameCase)


def names(c0: int, c1: int, c2: int, n: int) -> bool:
    """
    pre: 0 <= c0 < len(ALPHA)
    pre: 0 <= c1 < len(ALPHA)
    pre: 0 <= c2 < len(ALPHA)
    pre: c0 == PART.get("c0", c0)
    pre: 0 <= n <= 3
    post: _
    """
    k0, k1, k2, kn = concretize(c0, len(ALPHA)), concretize(c1, len(ALPHA)), concretize(c2, len(ALPHA)), concretize(n, 4)
    with untraced():
        return result(_names_ok("".join([ALPHA[k0], ALPHA[k1], ALPHA[k2]][:kn])) is None)


def _names_ok(name):
    """Returns None if fine, else a description of the first problem."""
    for pi, prefixes in enumerate(PREFIXES):
        # a safe prefix must itself be usable (xsdata documents the prefix as a plain word): skip reserved-word prefixes
        for case in CASES:
            if pi == 2:
                continue
            if _KNOWN_ORIGINAL and case is NameCase.ORIGINAL and "²" in name:
                continue  # exactly the signature of the listed known finding
            f = _filters(case, case, prefixes)
            try:
                out = {
                    "class": f.class_name(name), "field": f.field_name(name, "Owner"), "const": f.constant_name(name, "Owner"),
                    "module": f.module_name(name), "package": f.package_name(name),
                }
            except RecursionError:
                return f"safe_name does not terminate for {name!r} ({case})"
            for kind, val in out.items():
                if kind == "package":
                    if not _ident_ok(val, allow_dots=True):
                        return f"{kind}_name({name!r}, {case.name}) = {val!r}"
                elif not _ident_ok(val):
                    return f"{kind}_name({name!r}, {case.name}) = {val!r}"
                if kind in ("class", "field", "const") and text.is_reserved(val):
                    return f"{kind}_name({name!r}, {case.name}) = {val!r} is reserved"
    return None


# ----------------------------------------------------------------------------- pipeline
JKEYS = ["", "a", "A", "a-b", "a_b", "aB", "Ab", "AB", "class", "None", "type", "value", "1x", "x1", "_", "é", "a.b", "a b", "-1", "!", "a_Element", "a_element", "A_Attribute", "Class", "IN", "item", "Item", "Item.1", "item_1", "none"]
XNAMES = ["a", "A", "a-b", "a_b", "aB", "AB", "class", "None", "type", "value", "x1", "_", "é", "a.b", "_1", "a_Element", "a_element", "A_Attribute", "Meta", "self", "Optional", "a.B", "Class", "IN", "def_", "item", "Item", "Item.1", "item_1", "none", "any", "From"]
STYLES = list(StructureStyle)


def _config(part):
    cfg = GeneratorConfig()
    cfg.output.structure_style = STYLES[part.get("style", 0)]
    cfg.output.compound_fields.enabled = bool(part.get("compound", 0))
    cfg.output.unnest_classes = bool(part.get("unnest", 0))
    return cfg


def _needs_prefix(name):
    slug = text.alnum(name)
    return slug == "" or not slug[0].isalpha()


def _check_container(container, cfg):
    f = Filters(cfg)
    from xsdata.codegen.resolver import DependenciesResolver

    classes = list(container)
    by_module = {}

    def walk(cls, owner_names):
        rendered = {}
        for attr in cls.attrs:
            name = f.constant_name(attr.name, cls.name) if cls.is_enumeration else f.field_name(attr.name, cls.name)
            if not _ident_ok(name):
                return f"class {cls.name!r}: field {attr.name!r} renders as {name!r}"
            if name in rendered:
                if _KNOWN_PREFIX and (_needs_prefix(attr.name) or _needs_prefix(rendered[name])):
                    continue  # exactly the signature of the listed known finding
                return f"class {cls.name!r}: fields {rendered[name]!r} and {attr.name!r} both render as {name!r}"
            rendered[name] = attr.name
        inner_names = {}
        for inner in cls.inner:
            iname = f.class_name(inner.name)
            if not _ident_ok(iname):
                return f"inner class {inner.name!r} renders as {iname!r}"
            if iname in inner_names:
                return f"class {cls.name!r}: inner classes {inner_names[iname]!r} and {inner.name!r} both render as {iname!r}"
            inner_names[iname] = inner.name
            p = walk(inner, owner_names)
            if p:
                return p
        return None

    for cls in classes:
        cname = f.class_name(cls.name)
        if not _ident_ok(cname):
            return f"class {cls.name!r} renders as {cname!r}"
        key = (cls.package, cls.module)
        seen = by_module.setdefault(key, {})
        if cname in seen:
            if _KNOWN_PREFIX and (_needs_prefix(cls.name) or _needs_prefix(seen[cname].split("}")[-1])):
                continue  # exactly the signature of the listed known finding
            return f"module {key}: classes {seen[cname]!r} and {cls.qname!r} both render as {cname!r}"
        seen[cname] = cls.qname
        p = walk(cls, None)
        if p:
            return p
        for attr in cls.attrs:
            for tp in attr.types:
                if not tp.native and not tp.forward and container.find(tp.qname) is None and not tp.circular:
                    return f"class {cls.name!r}: reference {tp.qname!r} does not resolve"
    # dependency resolution of every package (topological order, imports)
    registry = {cls.qname: cls.target_module for cls in classes}
    resolver = DependenciesResolver(registry=registry)
    packages = {}
    for cls in classes:
        packages.setdefault(cls.target_module, []).append(cls)
    for module, items in packages.items():
        resolver.process(items)
        resolver.sorted_classes()
        resolver.sorted_imports()
    # module scoping of the emitted names: imports (with aliases) and classes bound once, every reference bound to the class it means
    from harness import multins

    return multins.scope_problem(container, f, DependenciesResolver, skip=lambda a, b: _KNOWN_PREFIX and (_needs_prefix(a) or _needs_prefix(b)))


def pipeline_json(k0: int, k1: int, k2: int) -> bool:
    """
    pre: k0 == PART.get("k0", 0)
    pre: 0 <= k1 < len(JKEYS)
    pre: 0 <= k2 < len(JKEYS)
    post: _
    """
    a, b, c = concretize(k0, len(JKEYS)), concretize(k1, len(JKEYS)), concretize(k2, len(JKEYS))
    with untraced():
        return result(_pipeline_json(JKEYS[a], JKEYS[b], JKEYS[c], PART) is None)


def _pipeline_json(ka, kb, kc, part):
    from xsdata.codegen.mappers.dict import DictMapper

    if len({ka, kb, kc}) < 3:
        return None  # JSON objects have distinct keys
    sample = {ka: 1, kb: "s", kc: [{ka: 1.5, kb: {kc: True}}, {ka: 2}], "tail": {kc: None, ka: [1, 2]}}
    cfg = _config(part)
    try:
        classes = DictMapper.map(sample, "Doc", "file:///doc.json")
        container = ClassContainer(config=cfg)
        container.extend(classes)
        container.process()
        return _check_container(container, cfg)
    except CodegenError:
        return None


def pipeline_xsd(k0: int, k1: int, k2: int) -> bool:
    """
    pre: k0 == PART.get("k0", 0)
    pre: 0 <= k1 < len(XNAMES)
    pre: 0 <= k2 < len(XNAMES)
    post: _
    """
    a, b, c = concretize(k0, len(XNAMES)), concretize(k1, len(XNAMES)), concretize(k2, len(XNAMES))
    with untraced():
        return result(_pipeline_xsd(XNAMES[a], XNAMES[b], XNAMES[c], PART) is None)


def _pipeline_xsd(na, nb, nc, part):
    from xsdata.codegen.mappers.schema import SchemaMapper
    from xsdata.codegen.parsers.schema import SchemaParser

    xsd = f"""<xs:schema xmlns:xs="http://www.w3.org/2001/XMLSchema" targetNamespace="urn:t" xmlns="urn:t" elementFormDefault="qualified">
<xs:element name="{na}" type="{nb}"/>
<xs:element name="{nc}"><xs:complexType><xs:sequence><xs:element name="{na}" type="xs:string"/><xs:element name="{nb}" type="xs:int" maxOccurs="3"/>
  <xs:element name="{nc}"><xs:complexType><xs:attribute name="{na}" type="xs:string"/></xs:complexType></xs:element></xs:sequence>
  <xs:attribute name="{nb}" type="xs:string"/><xs:attribute name="{nc}" type="{na}"/></xs:complexType></xs:element>
<xs:complexType name="{nb}"><xs:choice maxOccurs="unbounded"><xs:element name="{na}" type="{nb}" minOccurs="0"/><xs:element name="{nc}" type="xs:string"/><xs:element ref="{nc}"/></xs:choice>
  <xs:attribute name="{na}" type="{na}"/></xs:complexType>
<xs:simpleType name="{na}"><xs:restriction base="xs:string"><xs:enumeration value="{na}"/><xs:enumeration value="{nb}"/><xs:enumeration value="{nc}"/><xs:enumeration value="{na.upper()}"/></xs:restriction></xs:simpleType>
</xs:schema>"""
    cfg = _config(part)
    try:
        schema = SchemaParser(location="file:///t.xsd").from_string(xsd)
        classes = SchemaMapper.map(schema)
        container = ClassContainer(config=cfg)
        container.extend(classes)
        container.process()
        return _check_container(container, cfg)
    except CodegenError:
        return None


MNAMES = ["Foo", "foo", "FOO", "Bar", "class", "a-b", "a_b", "Kind", "order", "Item.1", "item_1", "é"]


def pipeline_multi(k0: int, k1: int, k2: int, choice: bool, cross: bool) -> bool:
    """
    pre: k0 == PART.get("k0", 0)
    pre: 0 <= k1 < len(MNAMES)
    pre: 0 <= k2 < len(MNAMES)
    post: _
    """
    a, b, c = concretize(k0, len(MNAMES)), concretize(k1, len(MNAMES)), concretize(k2, len(MNAMES))
    ch, cr = bool(concretize(int(choice), 2)), bool(concretize(int(cross), 2))
    with untraced():
        return result(_pipeline_multi(MNAMES[a], MNAMES[b], MNAMES[c], ch, cr, PART) is None)


def _pipeline_multi(na, nb, nc, choice, cross, part):
    """Three schemas in three namespaces / files: the two imported ones may define same-named or case-colliding types that
    the main schema references (inside a repeating choice or a sequence) next to its own type of a possibly colliding name."""
    from harness import multins

    cfg = _config(part)
    try:
        container = multins.container_for(multins.schema_set(na, nb, nc, choice=choice, local=True, cross=cross), cfg)
        return _check_container(container, cfg)
    except CodegenError:
        return None


def pipeline_graph(e0: bool, e1: bool, e2: bool, e3: bool, e4: bool, e5: bool) -> bool:
    """
    post: _
    """
    bits = [bool(concretize(int(b), 2)) for b in (e0, e1, e2, e3, e4, e5)]
    with untraced():
        return result(_pipeline_graph(bits, PART) is None)


def _pipeline_graph(bits, part):
    """Reference graphs on three named types (every subset of the 6 directed edges: chains, 2-cycles, 3-cycles, self-contained
    clusters) through the real pipeline; what matters here is module designation (clusters) and the imports that follow from it."""
    from harness import c12
    from xsdata.codegen.mappers.schema import SchemaMapper
    from xsdata.codegen.parsers.schema import SchemaParser

    cfg = _config(part)
    try:
        classes = SchemaMapper.map(SchemaParser(location="file:///t.xsd").from_string(c12._xsd(bits)))
        container = ClassContainer(config=cfg)
        container.extend(classes)
        container.process()
        return _check_container(container, cfg)
    except CodegenError:
        return None


def explain_names(c0, c1, c2, n):
    return _names_ok("".join([ALPHA[c0], ALPHA[c1], ALPHA[c2]][:n]))


PRE = {}
EXPLAIN = {
    "names": explain_names,
    "pipeline_json": lambda k0, k1, k2: {"keys": [JKEYS[k0], JKEYS[k1], JKEYS[k2]], "problem": _pipeline_json(JKEYS[k0], JKEYS[k1], JKEYS[k2], PART)},
    "pipeline_xsd": lambda k0, k1, k2: {"names": [XNAMES[k0], XNAMES[k1], XNAMES[k2]], "problem": _pipeline_xsd(XNAMES[k0], XNAMES[k1], XNAMES[k2], PART)},
    "pipeline_graph": lambda e0, e1, e2, e3, e4, e5: {"edges": [e for b, e in zip([e0, e1, e2, e3, e4, e5], __import__("harness.c12", fromlist=["EDGES"]).EDGES) if b], "problem": _pipeline_graph([e0, e1, e2, e3, e4, e5], PART)},
    "pipeline_multi": lambda k0, k1, k2, choice, cross: {"names": [MNAMES[k0], MNAMES[k1], MNAMES[k2]], "problem": _pipeline_multi(MNAMES[k0], MNAMES[k1], MNAMES[k2], choice, cross, PART)},
}


# thorough: 6 of the 20 (style, compound, unnest) combinations per first name, rotated with the name so that every combination meets
# every name class (all 20 per name measured 76 CPU-minutes on 16 cores: sized down to about half an hour)
THOROUGH_ROT = (0, 3, 7, 10, 13, 17)


def plan(tier):
    jobs = []
    quick = tier == "quick"
    for c0 in range(len(ALPHA)):
        jobs.append(Job("names", {"c0": c0}, 600, 60, note="selector driven"))
    combos = [(s, c, u) for s in range(len(STYLES)) for c in (0, 1) for u in (0, 1)]
    for k0 in range(len(JKEYS)):
        for ci, (s, c, u) in enumerate(combos):
            if quick and ci != (k0 * 7) % len(combos):
                continue
            if not quick and (ci - k0 * 7) % len(combos) not in THOROUGH_ROT:
                continue
            jobs.append(Job("pipeline_json", {"k0": k0, "style": s, "compound": c, "unnest": u}, 600, 60, note="selector driven"))
    for k0 in range(len(XNAMES)):
        for ci, (s, c, u) in enumerate(combos):
            if quick and ci != (k0 * 3 + 1) % len(combos):
                continue
            if not quick and (ci - k0 * 3 - 1) % len(combos) not in THOROUGH_ROT:
                continue
            jobs.append(Job("pipeline_xsd", {"k0": k0, "style": s, "compound": c, "unnest": u}, 600, 60, note="selector driven"))
    for ci, (s, c, u) in enumerate(combos):
        if quick and u != 0:
            continue
        jobs.append(Job("pipeline_graph", {"style": s, "compound": c, "unnest": u}, 600, 60, note="selector driven: all 64 reference graphs on three types"))
    for k0 in range(len(MNAMES)):
        for ci, (s, c, u) in enumerate(combos):
            if quick and ci != (k0 * 3 + 2 + 10 * (k0 % 2)) % len(combos):
                continue
            if not quick and (ci - k0 * 3 - 2) % len(combos) not in THOROUGH_ROT:
                continue
            jobs.append(Job("pipeline_multi", {"k0": k0, "style": s, "compound": c, "unnest": u}, 900, 60, note="selector driven, three namespaces / files"))
    return jobs


def original_case_witness():
    cfg = GeneratorConfig()
    cfg.conventions.class_name.case = NameCase.ORIGINAL
    return Filters(cfg).class_name("a\u00b2-").isidentifier()


def prefix_collision_witness():
    return _pipeline_json("x1", "type", "!", {"style": 0}) is None and not _prefix_collides()


def _prefix_collides():
    from xsdata.codegen.mappers.dict import DictMapper

    cfg = GeneratorConfig()
    container = ClassContainer(config=cfg)
    container.extend(DictMapper.map({"type": {"a": 1}, "!": {"b": 2}}, "Doc", "file:///doc.json"))
    container.process()
    f = Filters(cfg)
    names = [f.class_name(c.name) for c in container]
    return len(names) != len(set(names))
