"""C08 - all backends agree (DESIGN.md §5 C08): both writers + the tree builder on one symbolic object, both handlers on one stream."""

from __future__ import annotations

from harness import c01, seam
from harness.c03 import _tree_eq
from harness.common import PART, deep_eq, result
from harness.specs import NS_MAPS, SPECS
from vlib.jobs import Job

from xsdata.formats.dataclass.serializers.config import SerializerConfig

META = dict(c01.META)
META["bounds"] = c01.META["bounds"] + [
    "writers: XmlEventWriter, LxmlEventWriter and LxmlTreeBuilder (their Python halves) must emit infoset-equal SAX streams (ignorableWhitespace aside) or fail with the same exception class",
    "handlers: XmlEventHandler.process_context (+merge_parent_namespaces) and LxmlEventHandler.process_context on the same event stream must build equal objects or fail with the same exception class",
    "iterwalk (pure Python) over an element-stub tree vs the iterparse-contract stream (models without QName-typed values)",
]
META["bounds"] = META["bounds"] + ["sources: every pool document (harness/mutate.py DOCS) as bytes, str, path, binary and text file object, lxml tree / element, ElementTree tree / element through the REAL front ends "
                                   "of both handlers (selector driven, concrete runs): all must build the object the bytes build",
                                   "real_backends: every pool document x 11 user prefix maps through XmlSerializer (both writers) and TreeSerializer + lxml.etree.tostring: same infoset or all fail; "
                                   "real_text: strings of 1-2 code points from 29 class representatives (line ends, markup characters, non-characters, surrogates, supplementary planes) at 10 places: both writers' documents carry the same infoset; "
                                   "text_handlers: both handlers on a pool document with one comment / PI / CDATA section / character reference at every position (symbolic position)"]
META["outside"] = c01.META["outside"] + ["everything the C libraries do on the WRITING side (escaping, encodings)"]

SLEN = PART.get("slen", 2)
IMAX = PART.get("imax", 100)
_SPEC = SPECS.get(PART.get("spec", "basic_int"))
K = _SPEC.K if _SPEC else (1, 1, 1)


def _valid(i0, i1, s0, s1, b0, k0, k1, k2):
    if _SPEC.valid is None:
        return True
    return _SPEC.valid(i0, i1, s0, s1, b0, k0, k1, k2)


def agree(i0: int, i1: int, s0: str, s1: str, b0: bool, k0: int, k1: int, k2: int) -> bool:
    """
    pre: -IMAX < i0 < IMAX
    pre: -10 < i1 < 100
    pre: len(s0) <= SLEN
    pre: len(s1) <= SLEN
    pre: 0 <= k0 < K[0]
    pre: 0 <= k1 < K[1]
    pre: 0 <= k2 < K[2]
    pre: _valid(i0, i1, s0, s1, b0, k0, k1, k2)
    post: _
    """
    return _agree(PART, i0, i1, s0, s1, b0, k0, k1, k2)


def _agree(part, i0, i1, s0, s1, b0, k0, k1, k2):
    spec = SPECS[part["spec"]]
    obj = spec.build(i0, i1, s0, s1, b0, k0, k1, k2)
    ns_map = NS_MAPS[part.get("ns", 0)]
    cfg = SerializerConfig(ignore_default_attributes=bool(part.get("ida")))
    ctx = c01._context(spec.cls)
    outs = []
    for writer in ("native", "lxml", "tree"):
        try:
            calls = seam.to_sax(obj, writer, cfg, dict(ns_map) if ns_map else None, ctx)
            if seam.monitor(calls, writer == "native"):
                outs.append(("BAD", None, None))
            else:
                outs.append(("ok", seam.tree_of(calls, qnames=_QNAMED), calls))
        except Exception as e:  # noqa: BLE001
            outs.append((type(e).__name__, None, None))
    kinds = [o[0] for o in outs]
    if kinds[0] != kinds[1] or kinds[1] != kinds[2] or kinds[0] == "BAD":
        return result(False)
    if kinds[0] != "ok":
        return result(True)
    if not (_tree_eq(outs[0][1], outs[1][1]) and _tree_eq(outs[1][1], outs[2][1])):
        return result(False)
    # handlers on the same stream
    res = []
    for handler in ("native", "lxml"):
        try:
            res.append(("ok", seam.parse_context(seam.sax_to_context(outs[0][2]), spec.cls, handler, None, ctx)))
        except Exception as e:  # noqa: BLE001
            res.append((type(e).__name__, None))
    if res[0][0] != res[1][0]:
        return result(False)
    if res[0][0] != "ok":
        return result(True)
    same = deep_eq(res[0][1], res[1][1])
    if part.get("walk"):
        # pure-Python iterwalk over the element-stub tree vs the iterparse-contract stream
        from xsdata.formats.dataclass.parsers.handlers.native import iterwalk

        ctxs = seam.sax_to_context(outs[0][2])
        root = ctxs[[e for e, _ in ctxs].index("start")][1]
        walked = seam.parse_context(list(iterwalk(root, {})), spec.cls, "native", None, ctx)
        same = same and deep_eq(walked, res[0][1])
    return result(same)


# element / attribute names whose values are QNames by the model: compared modulo prefix choice
_QNAMED = ("{urn:a}q", "{urn:a}qs", "qa")

PRE = {}
EXPLAIN = {}
_WALK = ["basic_int", "basic_str", "textattr", "lists_int", "nilparent", "parenta", "unqualified", "sequential", "wrapped", "compound_single", "defaults", "nsattr"]


# ---------------------------------------------------------------------------------------------------------------------
# source kinds through the real front ends: bytes, str, path, binary / text file object, lxml tree / element, ElementTree tree / element
from harness import textpath  # noqa: E402
from harness.common import concretize, known, untraced  # noqa: E402

_KNOWN_ET_PREFIX = known("C08-elementtree-source-loses-prefixes")
_PREFIX_VALUE_DOCS = ("qnames", "anytyped", "enums")  # documents whose CONTENT uses prefixes (QName values, xsi:type of builtins); also every any* document (xsi:type="xs:...")


def _sources(doc, src, h):
    handler = ("lxml", "native")[h]
    source = textpath.SOURCES[src]
    cls, text = textpath.doc_text(doc)
    if _KNOWN_ET_PREFIX and source.startswith("et_") and (doc in _PREFIX_VALUE_DOCS or doc.startswith("any")):
        return {"ok": True, "skipped": "exactly the signature of the listed known finding"}
    try:
        base = textpath.parse(text.encode(), cls, "native")
        other = textpath.parse(text.encode(), cls, "lxml")
        got = textpath.parse_source(doc, source, handler)
    except Exception as e:  # noqa: BLE001
        return {"ok": False, "raised": repr(e)[:300], "source": source, "handler": handler}
    if got is None:
        return {"ok": base == other, "skipped": "handler does not take this source kind"}
    return {"ok": base == other and ("ok", got) == base, "source": source, "handler": handler, "bytes_native": repr(base)[:300], "bytes_lxml": repr(other)[:300], "got": repr(got)[:300]}


def sources(src: int, h: int) -> bool:
    """
    pre: 0 <= src < len(textpath.SOURCES)
    pre: 0 <= h <= 1
    post: _
    """
    cs, ch = concretize(src, len(textpath.SOURCES)), concretize(h, 2)
    with untraced():
        return result(_sources(PART.get("doc", "basic"), cs, ch)["ok"])


def _real_backends(doc, ns):
    """The three writing backends through their real entry points and C halves: XmlSerializer with the native and the lxml writer,
    TreeSerializer + lxml.etree.tostring, all with the same user prefix map; the documents must carry the same infoset (or all fail)."""
    from harness import mutate
    from lxml import etree
    from xsdata.formats.dataclass.context import XmlContext
    from xsdata.formats.dataclass.serializers import TreeSerializer, XmlSerializer

    cls, obj = textpath.doc_object(doc)
    ns_map = NS_MAPS[ns]
    res = {}
    for name in ("native", "lxml", "tree"):
        try:
            if name == "tree":
                data = etree.tostring(TreeSerializer(context=XmlContext()).render(obj, dict(ns_map) if ns_map is not None else None))
            else:
                data = XmlSerializer(context=XmlContext(), writer=textpath.writers()[name]).render(obj, dict(ns_map) if ns_map is not None else None).encode()
        except Exception as e:  # noqa: BLE001
            res[name] = ("render raised", type(e).__name__, str(e)[:100])
            continue
        try:
            res[name] = textpath.parse(data, cls, "native")
        except Exception as e:  # noqa: BLE001
            res[name] = ("parse raised", type(e).__name__, str(e)[:100])
    kinds = {r[0] for r in res.values()}
    ok = (kinds == {"ok"} and res["native"] == res["lxml"] == res["tree"]) or "ok" not in kinds
    return {"ok": ok, "ns_map": repr(ns_map), **{k: repr(v)[:300] for k, v in res.items()}}


def real_backends(ns: int) -> bool:
    """
    pre: 0 <= ns < len(NS_MAPS)
    post: _
    """
    cn = concretize(ns, len(NS_MAPS))
    with untraced():
        return result(_real_backends(PART.get("doc", "basic"), cn)["ok"])


_TH = {}


def _th_n():
    key = (PART.get("doc", "basic"), PART.get("kind", "comment"))
    if key not in _TH:
        with untraced():
            _TH[key] = textpath.n_positions(*key)
    return _TH[key]


def _text_handlers(doc, kind, k):
    """Both real handlers on the same well-formed TEXT (a pool document with one comment / PI / CDATA section / character reference)."""
    cls, _text = textpath.doc_text(doc)
    new = textpath.rewrite(doc, kind, k)
    if new is None:
        return {"ok": True, "skipped": "rewrite does not apply at this position"}
    res = {}
    for h in ("lxml", "native"):
        try:
            res[h] = textpath.parse(new, cls, h)
        except Exception as e:  # noqa: BLE001
            res[h] = ("raised", type(e).__name__)
    return {"ok": res["lxml"] == res["native"], "document": new[:400], "lxml": repr(res["lxml"])[:300], "native": repr(res["native"])[:300]}


def text_handlers(k: int) -> bool:
    """
    pre: 0 <= k < _th_n()
    post: _
    """
    from harness.common import concretize_bs

    ck = concretize_bs(k, _th_n())
    with untraced():
        return result(_text_handlers(PART.get("doc", "basic"), PART.get("kind", "comment"), ck)["ok"])


def et_prefix_witness():
    """Known finding C08-elementtree-source-loses-prefixes through the public API."""
    import xml.etree.ElementTree as ET

    from xsdata.formats.dataclass.parsers import XmlParser
    from xsdata.formats.dataclass.parsers.handlers import XmlEventHandler

    from harness.models import QNames

    xml = '<ns0:qn xmlns:ns0="urn:a"><ns0:q xmlns:ns1="urn:b">ns1:x</ns0:q></ns0:qn>'
    p = XmlParser(handler=XmlEventHandler)
    return p.parse(ET.fromstring(xml), QNames) == p.from_string(xml, QNames)


EXPLAIN = {"text_handlers": lambda k: _text_handlers(PART.get("doc", "basic"), PART.get("kind", "comment"), k), "real_backends": lambda ns: _real_backends(PART.get("doc", "basic"), ns), "sources": lambda src, h: _sources(PART.get("doc", "basic"), src, h), "real_text": lambda c0, c1, place: explain_real_text(c0, c1, place)}


# ---------------------------------------------------------------------------------------------------------------------
# the real TEXT layer of both writers (escaping, line ends, characters outside XML 1.0) - harness/textpath.py write_check
from harness import textpath  # noqa: E402
from harness.common import concretize, known, untraced  # noqa: E402

_TP_PROP = "C08"
_KNOWN_NONXML = known("C03-native-writer-nonxml-chars")


def real_text(c0: int, c1: int, place: int) -> bool:
    """
    pre: 0 <= c0 < len(textpath.CPS)
    pre: 0 <= c1 <= len(textpath.CPS)
    pre: place == PART.get("place", 0)
    post: _
    """
    k0, k1, kp = concretize(c0, len(textpath.CPS)), concretize(c1, len(textpath.CPS) + 1), PART.get("place", 0)
    with untraced():
        return result(textpath.write_check(_TP_PROP, textpath.PLACES[kp], k0, k1, _KNOWN_NONXML)["ok"])


def explain_real_text(c0, c1, place):
    return textpath.write_check(_TP_PROP, textpath.PLACES[place], c0, c1, _KNOWN_NONXML)


def plan(tier):
    jobs = _plan_seam(tier)
    from harness import mutate

    for doc in textpath.doc_names():
        jobs.append(Job("sources", {"doc": doc}, 120, 30, note="real front ends: 9 source kinds x 2 handlers"))
        jobs.append(Job("real_backends", {"doc": doc}, 120, 30, note="real writers + tree serializer under every user prefix map"))
        if tier != "quick" or doc in ("basic", "mixed", "qnames", "wild", "temporal", "holder"):
            for kind in ("comment", "pi", "cdata", "charref"):
                if textpath.n_positions(doc, kind):
                    jobs.append(Job("text_handlers", {"doc": doc, "kind": kind}, 300, 30, note="both real handlers on one text; position symbolic"))
    for place in range(len(textpath.PLACES)):
        jobs.append(Job("real_text", {"place": place}, 300, 30, note="real writers / parsers on text; code points by selector"))
    return jobs


def _plan_seam(tier):
    jobs = []
    names = list(c01._QUICK_SPECS)
    if tier == "quick":
        slow = {"unions_str": 1, "compound": 1, "nillable": 1, "sequential": 1, "family": 1, "unionmodels": 1}
        nss = [0, 3, 5, 8, 1, 9, 2, 7]
        for n, name in enumerate(names):
            jobs.append(Job("agree", {"spec": name, "ns": nss[n % 8], "ida": n % 2, "slen": slow.get(name, 2), "imax": 100, "walk": int(name in _WALK)}, 240, 30))
        for name, ns in (("nsattr", 1), ("nsattrparent", 1), ("nsattr", 10), ("nsattrparent", 7), ("qnames", 7), ("qnames", 1)):
            jobs.append(Job("agree", {"spec": name, "ns": ns, "ida": 0, "slen": 1, "imax": 100}, 240, 30))
        for ns in (5, 8):
            for name in ("nillable", "holder", "anytyped", "nsattr", "parenta", "qnames"):
                jobs.append(Job("agree", {"spec": name, "ns": ns, "ida": 0, "slen": 1, "imax": 100}, 240, 30))
    else:
        for name in SPECS:
            for ns in range(len(NS_MAPS)):
                for ida in (0, 1):
                    jobs.append(Job("agree", {"spec": name, "ns": ns, "ida": ida, "slen": 1 if name in ("unions_str", "compound") else 2, "imax": 1000, "walk": int(name in _WALK)}, 900, 40))
    return jobs
