"""C09 - parsing depends only on the XML infoset (DESIGN.md §5 C09): meaning-preserving rewrites at the event level."""

from __future__ import annotations

from harness import c01, mutate, seam
from harness.common import PART, deep_eq, result
from vlib.jobs import Job

from xsdata.formats.dataclass.parsers.config import ParserConfig
from xsdata.formats.dataclass.parsers.handlers.native import get_base_url

META = {
    "functions": [
        "xsdata.formats.dataclass.parsers.handlers.native:XmlEventHandler.process_context", "xsdata.formats.dataclass.parsers.handlers.native:XmlEventHandler.merge_parent_namespaces",
        "xsdata.formats.dataclass.parsers.handlers.lxml:LxmlEventHandler.process_context", "xsdata.formats.dataclass.parsers.handlers.native:get_base_url",
        "xsdata.formats.dataclass.models.elements:XmlMeta.find_children", "xsdata.formats.dataclass.models.elements:XmlMeta.find_attribute",
        "xsdata.formats.dataclass.parsers.utils:ParserUtils.xsi_type", "xsdata.formats.dataclass.parsers.utils:ParserUtils.normalize_content",
        "xsdata.formats.converter:QNameConverter.resolve", "xsdata.formats.dataclass.parsers.nodes.element:ElementNode.bind_content",
        "xsdata.formats.dataclass.parsers.bases:NodeParser.start", "xsdata.formats.dataclass.parsers.bases:NodeParser.end",
    ],
    "bounds": [
        "valid documents: harness/mutate.py DOCS serialised concretely; rewrites composed from symbolic choices:",
        "(a) every prefix renamed through a permutation chosen from 4 fresh-name schemes (incl. reuse of ns0/ns1/xsi for other URIs), consistently inside xsi:type and QName-typed values; optionally the root's namespace moved to the default namespace",
        "(b) attribute order reversed; (c) white-space-only strings (symbolic over space/tab/LF/CR, <= 2) as text before the first child and as tail of every child of element-only content",
        "(d) symbolic white space around non-string leaf values; (e) all in-scope declarations redundantly repeated on a selector-chosen descendant",
        "(g) text level, through the real lxml / expat front ends (harness/textpath.py): a comment or a processing instruction inserted at EVERY character-data / between-tags position (symbolic position), "
        "every literal character of character data and of attribute values replaced by a character reference, every character-data run wrapped in CDATA, white space before every tag end, quote style, "
        "5 encodings with matching declarations; both handlers, outcome compared with the unrewritten document's",
        "(i) XInclude through real files and from_path(process_xinclude=True): every element with children moved to an included XML file, every childless element's text (plus a non-ASCII character) moved to an included "
        "text file in utf-8 / iso-8859-1; outcome compared with the inline twin of the same document",
        "(h) text level: each of 4 white-space strings around the lexical value of every non-string leaf and attribute (ints, booleans, enums, dates, decimals, QNames, hexBinary, base64Binary) of the serialised pool documents",
        "(f) inside a selector-chosen subtree every in-scope prefix is shadowed (re-bound to a dummy URI) and replaced by a fresh one; later siblings keep using the outer binding",
    ],
    "outside": ["XInclude beyond one inclusion per document (nested includes, xpointer, fallback)", "text-level rewrites are applied ONE at a time to the serialised pool documents (compositions only at the event level); "
                "the C parsers themselves are executed, not modelled: for the text-level drivers the solver only enumerates the position"],
    "stubs": ["SAX seam", "CrossHair model pack", "XmlContext.get_subclasses(object) iterates the model pool"],
    "assumptions": [],
}

XSI = seam.XSI
_DOC = PART.get("doc", "basic")
_CLS, _OBJ = mutate.DOCS[_DOC]
_STATE = {}

# leaves bound to non-string types, per document (white space around them is insignificant)
NONSTR = {
    "basic": ["{urn:a}i"], "lists": ["{urn:a}i", "{urn:a}toks"], "nillable": ["{urn:a}m"], "parenta": ["{urn:a}v", "{urn:b}other", "local"],
    "sequential": ["a", "c"], "wrapped": ["{urn:a}i"], "holder": ["{urn:a}x"], "enums": ["{urn:a}c", "{urn:a}cs"], "nsattr": ["{urn:b}x"],
    "temporal": ["d", "dec", "f"], "qnames": ["{urn:a}q", "{urn:a}qs"], "formats": ["h", "hs"],
}
NONSTR_ATTR = {"basic": ["b", "n"], "textattr": [], "enums": ["n"], "holder": ["z"], "defaults": ["a", "req"], "temporal": ["t"], "qnames": ["qa"], "formats": ["b"]}
# values that are QNames (prefix:local), per document: element texts / attribute names
QN_TEXT = {"qnames": ["{urn:a}q", "{urn:a}qs"], "enums": ["{urn:a}q"]}
QN_ATTR = {"qnames": ["qa"]}
SCHEMES = [["p", "q", "r", "s"], ["ns1", "ns0", "xsi", "xs"], ["xsi", "a", "ns0", "b"], ["z9", "ns7", "ns1", "ns2"]]


def _setup():
    if not _STATE:
        import contextlib

        try:
            from crosshair.tracers import NoTracing, is_tracing

            guard = NoTracing() if is_tracing() else contextlib.nullcontext()
        except Exception:  # noqa: BLE001
            guard = contextlib.nullcontext()
        with guard:
            ctx = c01._context(_CLS)
            base = mutate.tree_for(_OBJ, PART.get("writer", "native"), None, None, ctx)
            _STATE["ctx"], _STATE["base"] = ctx, base
            _STATE["baseline"] = seam.parse_context(mutate.linearize(base), _CLS, "native", ParserConfig(), ctx)
    return _STATE


NN = len(mutate.nodes(mutate.tree_for(_OBJ)))


def _wsok(s):
    return all([any([c == 32, c == 9, c == 10, c == 13]) for c in [ord(ch) for ch in s]])


def _rename_value(v, mapping):
    """Rename the prefix of every white-space separated QName token, keeping the white space as it is."""
    out, tok = [], []

    def flush():
        if tok:
            t = "".join(tok)
            pfx, sep, loc = t.partition(":")
            out.append(mapping[pfx] + ":" + loc if sep and pfx in mapping else t)
            del tok[:]

    for ch in v:
        if ch in " \t\n\r":
            flush()
            out.append(ch)
        else:
            tok.append(ch)
    flush()
    return "".join(out)


def _rename_prefixes(root, scheme, use_default):
    """Rename every declared prefix (consistently in QName-typed values)."""
    names = SCHEMES[scheme]
    mapping = {}
    for n in mutate.nodes(root):
        for p, _u in n.ns:
            if p is not None and p not in mapping:
                mapping[p] = names[len(mapping) % len(names)] + ("" if len(mapping) < len(names) else str(len(mapping)))
    root_uri = root.qname[1:].split("}")[0] if root.qname.startswith("{") else None
    dflt_prefix = None
    if use_default and root_uri:
        # move the root's namespace to the default namespace if no attribute lives in it and no unprefixed QName value exists
        attr_uses = any(k.startswith("{%s}" % root_uri) for n in mutate.nodes(root) for k in n.attrs)
        unqualified = any(not n.qname.startswith("{") for n in mutate.nodes(root))
        if not attr_uses and not unqualified and _DOC not in QN_TEXT and _DOC not in QN_ATTR:
            for p, u in root.ns:
                if u == root_uri and p is not None:
                    dflt_prefix = p
    for n in mutate.nodes(root):
        n.ns = [((None if p == dflt_prefix else mapping.get(p, p)) if p is not None else None, u) for p, u in n.ns]
        tkey = "{%s}type" % XSI
        if tkey in n.attrs:
            v = n.attrs[tkey]
            pfx, sep, loc = v.partition(":")
            if sep and pfx == dflt_prefix:
                n.attrs[tkey] = loc
            else:
                n.attrs[tkey] = _rename_value(v, mapping)
        for a in QN_ATTR.get(_DOC, []):
            if a in n.attrs:
                n.attrs[a] = _rename_value(n.attrs[a], mapping)
        if n.qname in QN_TEXT.get(_DOC, []) and n.text:
            n.text = _rename_value(n.text, mapping)


def _shadow(root, target):
    """(f) Inside the subtree of `target` every prefix in scope is re-bound to a dummy URI and a fresh prefix takes over its
    role (QName-typed values and xsi:type inside the subtree are renamed); elements after the subtree still use the outer bindings."""
    scope = {}

    def collect(n, sc):
        sc = dict(sc)
        for p, u in n.ns:
            sc[p] = u
        if n is target:
            scope.update(sc)
            return True
        for c in n.children:
            if collect(c, sc):
                return True
        return False

    collect(root, {})
    mapping = {p: "s_" + p for p in scope if p is not None}
    if not mapping:
        return
    own = {p for p, _ in target.ns}
    target.ns = [(p, u) for p, u in target.ns if p not in mapping] + [(mapping[p], u) for p, u in scope.items() if p in mapping] + [(p, "urn:shadowed:" + p) for p in mapping]
    tkey = "{%s}type" % XSI
    for n in mutate.nodes(target):
        if n is not target:
            n.ns = [((mapping.get(p, p)) if p is not None else None, u) for p, u in n.ns]
        if tkey in n.attrs:
            n.attrs[tkey] = _rename_value(n.attrs[tkey], mapping)
        for a in QN_ATTR.get(_DOC, []):
            if a in n.attrs:
                n.attrs[a] = _rename_value(n.attrs[a], mapping)
        if n.qname in QN_TEXT.get(_DOC, []) and n.text:
            n.text = _rename_value(n.text, mapping)


def rewrite(scheme: int, dflt: bool, rev: bool, ws0: str, ws1: str, pad: str, rd: int, sh: int) -> bool:
    """
    pre: sh == PART.get("sh", -1)
    pre: scheme == PART.get("scheme", 0)
    pre: dflt == bool(PART.get("dflt", 0))
    pre: rev == bool(PART.get("rev", 0))
    pre: len(ws0) <= 2
    pre: len(ws1) <= 1
    pre: len(pad) <= 1
    pre: _wsok(ws0)
    pre: _wsok(ws1)
    pre: _wsok(pad)
    pre: 0 <= rd < NN
    post: _
    """
    st = _setup()
    root = st["base"].copy()
    _rename_prefixes(root, scheme, dflt)
    csh = PART.get("sh", -1)
    if csh > 0:  # structural rewrites first (they see concrete strings), white space afterwards
        _shadow(root, mutate.nodes(root)[csh])
    ns_all = []
    for n in mutate.nodes(root):
        if rev:
            n.attrs = dict(reversed(list(n.attrs.items())))
        if n.children and n.text is None:  # element-only content
            n.text = ws0 if ws0 != "" else None
            for c in n.children:
                if c.tail is None:
                    c.tail = ws1 if ws1 != "" else None
        if not n.children and n.qname in NONSTR.get(_DOC, []) and n.text:
            n.text = pad + n.text + pad
        for a in NONSTR_ATTR.get(_DOC, []):
            if a in n.attrs:
                n.attrs[a] = pad + n.attrs[a] + pad
    # (e) redundant redeclaration of everything in scope on node rd
    target = mutate.nodes(root)[rd]
    scope = {}

    def collect(n, sc):
        sc = dict(sc)
        for p, u in n.ns:
            sc[p] = u
        if n is target:
            scope.update(sc)
            return True
        for c in n.children:
            if collect(c, sc):
                return True
        return False

    collect(root, {})
    have = {p for p, _ in target.ns}
    target.ns = list(target.ns) + [(p, u) for p, u in scope.items() if p not in have]
    ok = True
    for handler in ("native", "lxml"):
        obj = seam.parse_context(mutate.linearize(root), _CLS, handler, ParserConfig(), st["ctx"])
        ok = ok and deep_eq(obj, st["baseline"])
    return result(ok)


_URLS = [None, "", "http://h/a/b.xml", "/tmp/x.xml", "file:///d/"]


def base_url(b: int, s: int) -> bool:
    """
    pre: 0 <= b < len(_URLS)
    pre: 0 <= s < len(_URLS) + 1
    post: _
    """
    import io

    source = _URLS[s] if s < len(_URLS) else io.BytesIO(b"<a/>")
    got = get_base_url(_URLS[b], source)
    want = _URLS[b] if _URLS[b] else (source if isinstance(source, str) else None)
    return result(got == want)


# ---------------------------------------------------------------------------------------------------------------------
# text-level rewrites through the REAL front ends (harness/textpath.py): comments, processing instructions, character
# references, CDATA sections, white space inside tags, quote style, encodings.  The position is the symbolic input.
from harness import textpath  # noqa: E402
from harness.common import concretize, concretize_bs, untraced  # noqa: E402

_TP = {}


def _tp_n():
    key = (_DOC, PART.get("kind", "comment"))
    if key not in _TP:
        with untraced():
            _TP[key] = textpath.n_positions(*key)
    return _TP[key]


def _outcome(data, cls, handler):
    try:
        return textpath.parse(data, cls, handler)
    except Exception as e:  # noqa: BLE001
        return ("err", type(e).__name__)


def _text_rewrite(doc, kind, k):
    cls, text = textpath.doc_text(doc)
    new = textpath.rewrite(doc, kind, k)
    if new is None:
        return {"ok": True, "skipped": "rewrite does not apply at this position"}
    out = {"ok": True, "document": new[:400]}
    for h in ("lxml", "native"):
        base, got = _outcome(text, cls, h), _outcome(new, cls, h)
        if base != got:
            out["ok"] = False
            out[h] = {"original": repr(base)[:300], "rewritten": repr(got)[:300]}
    return out


def text_rewrite(k: int) -> bool:
    """
    pre: 0 <= k < _tp_n()
    post: _
    """
    ck = concretize_bs(k, _tp_n())
    with untraced():
        return result(_text_rewrite(_DOC, PART.get("kind", "comment"), ck)["ok"])


def _text_encoding(doc, e):
    cls, text = textpath.doc_text(doc)
    data = textpath.encoded(doc, textpath.ENCODINGS[e])
    out = {"ok": True, "encoding": textpath.ENCODINGS[e]}
    for h in ("lxml", "native"):
        base, got = _outcome(text, cls, h), _outcome(data, cls, h)
        if base != got:
            out["ok"] = False
            out[h] = {"original": repr(base)[:300], "recoded": repr(got)[:300]}
    return out


_XIN = {}


def _xi_n():
    if _DOC not in _XIN:
        with untraced():
            _XIN[_DOC] = textpath.n_elements(_DOC)
    return _XIN[_DOC]


def _text_xinclude(doc, k, e):
    cls, _text = textpath.doc_text(doc)
    inline, files = textpath.xinclude_variants(doc, k, e)
    out = {"ok": True, "main": files["main.xml"][:300].decode(errors="replace"), "files": sorted(files)}
    for h in ("lxml", "native"):
        base = _outcome(inline, cls, h)
        try:
            got = ("ok", textpath.parse_xinclude(files, cls, h))
        except Exception as ex:  # noqa: BLE001
            got = ("err", type(ex).__name__)
        if base != got:
            out["ok"] = False
            out[h] = {"inline": repr(base)[:300], "split": repr(got)[:300]}
    return out


def text_xinclude(k: int, e: int) -> bool:
    """
    pre: 0 <= k < _xi_n()
    pre: 0 <= e < len(textpath.XI_ENCODINGS)
    post: _
    """
    ck, ce = concretize(k, max(1, _xi_n())), concretize(e, len(textpath.XI_ENCODINGS))
    with untraced():
        return result(_text_xinclude(_DOC, ck, ce)["ok"])


_PADS = [" ", "\n", "\t", "\r\n  "]


def _pad_spots(doc):
    """(start, end) spans of the lexical values of NON-string leaves and attributes of the serialised document (white space around them is insignificant)."""
    import re

    _cls, text = textpath.doc_text(doc)
    spots = []
    for q in NONSTR.get(doc, []):
        local = q.split("}")[-1]
        for m in re.finditer(r"<(?:[A-Za-z0-9_]+:)?%s(?:\s[^>]*)?>([^<]+)</" % re.escape(local), text):
            spots.append(m.span(1))
    for a in NONSTR_ATTR.get(doc, []):
        for m in re.finditer(r"\s(?:[A-Za-z0-9_]+:)?%s=\"([^\"]*)\"" % re.escape(a), text):
            spots.append(m.span(1))
    return sorted(set(spots))


_PADN = {}


def _pad_n():
    if _DOC not in _PADN:
        with untraced():
            _PADN[_DOC] = len(_pad_spots(_DOC))
    return _PADN[_DOC]


def _text_pad(doc, k, w):
    cls, text = textpath.doc_text(doc)
    lo, hi = _pad_spots(doc)[k]
    new = text[:lo] + _PADS[w] + text[lo:hi] + _PADS[w] + text[hi:]
    out = {"ok": True, "document": new[:400]}
    for h in ("lxml", "native"):
        base, got = _outcome(text, cls, h), _outcome(new, cls, h)
        if base != got:
            out["ok"] = False
            out[h] = {"original": repr(base)[:300], "padded": repr(got)[:300]}
    return out


def text_pad(k: int, w: int) -> bool:
    """
    pre: 0 <= k < _pad_n()
    pre: 0 <= w < len(_PADS)
    post: _
    """
    ck, cw = concretize(k, max(1, _pad_n())), concretize(w, len(_PADS))
    with untraced():
        return result(_text_pad(_DOC, ck, cw)["ok"])


def text_encoding(e: int) -> bool:
    """
    pre: 0 <= e < len(textpath.ENCODINGS)
    post: _
    """
    ce = concretize(e, len(textpath.ENCODINGS))
    with untraced():
        return result(_text_encoding(_DOC, ce)["ok"])


PRE = {}
EXPLAIN = {"text_xinclude": lambda k, e: _text_xinclude(_DOC, k, e), "text_pad": lambda k, w: _text_pad(_DOC, k, w), "text_rewrite": lambda k: _text_rewrite(_DOC, PART.get("kind", "comment"), k), "text_encoding": lambda e: _text_encoding(_DOC, e)}


def plan(tier):
    quick = tier == "quick"
    jobs = _plan_seam(tier)
    tdocs = ["basic", "qnames", "mixed", "wild", "holder", "temporal", "compound", "nillable", "textattr", "anytyped", "lists", "enums"] if quick else sorted(mutate.DOCS)
    for doc in tdocs:
        for kind in textpath.REWRITES:
            if textpath.n_positions(doc, kind) == 0:
                continue  # rewrite kind not applicable to this document (would be a vacuous harness)
            jobs.append(Job("text_rewrite", {"doc": doc, "kind": kind}, 300, 30, note="real lxml / expat front ends; position symbolic"))
        jobs.append(Job("text_encoding", {"doc": doc}, 120, 30, note="real lxml / expat front ends"))
        if textpath.n_elements(doc) and textpath.et_safe(doc):
            jobs.append(Job("text_xinclude", {"doc": doc}, 300, 30, note="real file route: every element split off with XInclude (xml include / text include in 2 encodings)"))
    for doc in sorted(set(NONSTR) | set(NONSTR_ATTR)):
        if doc in mutate.DOCS and _pad_spots(doc):
            jobs.append(Job("text_pad", {"doc": doc}, 120, 30, note="real front ends: white space around the lexical value of every non-string leaf / attribute"))
    return jobs


def _plan_seam(tier):
    quick = tier == "quick"
    docs = ["basic", "parenta", "holder", "qnames", "enums", "nillable", "nsattr", "wrapped", "anystr", "family"] if quick else [d for d in mutate.DOCS if d not in ("mixed", "temporal")]  # temporal: the datetime parsers run regular expressions on the (symbolic, padded) lexical values, which CrossHair cannot follow (its text-level twin text_pad covers them)
    jobs = []
    for d_i, doc in enumerate(docs):
        for writer in (("native",) if quick else ("native", "lxml")):
            for scheme in range(len(SCHEMES)):
                for dflt in (0, 1):
                    for rev in (0, 1):
                        if quick and (scheme, dflt, rev) not in (((d_i) % 4, d_i % 2, 1), ((d_i + 1) % 4, (d_i + 1) % 2, 0), ((d_i + 2) % 4, 1, d_i % 2)):
                            continue
                        jobs.append(Job("rewrite", {"doc": doc, "writer": writer, "scheme": scheme, "dflt": dflt, "rev": rev}, 240 if quick else 900, 30))
            # (f) prefix shadowing inside the subtree of each child of the root (quick: the first two children)
            n_nodes = len(mutate.nodes(mutate.tree_for(mutate.DOCS[doc][1])))
            for sh in (range(1, min(n_nodes, 3)) if quick else range(1, n_nodes)):
                jobs.append(Job("rewrite", {"doc": doc, "writer": writer, "scheme": (d_i + sh) % len(SCHEMES), "dflt": 0, "rev": sh % 2, "sh": sh}, 240 if quick else 900, 30))
    jobs.append(Job("base_url", {"doc": "basic"}, 60, 10))
    return jobs
