"""C10 - strictness options do what they say (DESIGN.md §5 C10)."""

from __future__ import annotations

import warnings

from harness import c01, mutate, seam
from harness.common import PART, deep_eq, known, result, small_alphabet
from vlib.jobs import Job

from xsdata.exceptions import ConverterWarning, ParserError
from xsdata.formats.dataclass.parsers.config import ParserConfig
from xsdata.formats.dataclass.parsers.dict import DictDecoder
from xsdata.formats.dataclass.serializers.dict import DictEncoder

META = {
    "functions": [
        "xsdata.formats.dataclass.parsers.nodes.element:ElementNode.child", "xsdata.formats.dataclass.parsers.nodes.element:ElementNode.bind_attrs",
        "xsdata.formats.dataclass.parsers.nodes.element:ElementNode.bind_objects", "xsdata.formats.dataclass.parsers.nodes.skip:SkipNode.child",
        "xsdata.formats.dataclass.parsers.nodes.skip:SkipNode.bind", "xsdata.formats.dataclass.parsers.utils:ParserUtils.parse_var",
        "xsdata.formats.dataclass.parsers.dict:DictDecoder.bind_dataclass", "xsdata.formats.dataclass.parsers.bases:NodeParser.start",
        "xsdata.formats.dataclass.parsers.bases:NodeParser.end",
    ],
    "bounds": [
        "valid documents: harness/mutate.py DOCS without wildcard-bearing classes (a wildcard legitimately absorbs unknown content)",
        "unknown element: any child slot of any complex element of the stream (selector), shapes leaf / one child / two levels with text and attributes, 6 names incl. names that are fields elsewhere in the model",
        "unknown attribute: plain, namespaced, xsi:* on any element (selector); symbolic value <= 1 code point",
        "bad value: text of an int element / attribute replaced by a symbolic string (<= 2 code points, ASCII + 3 representatives) that contains a letter",
        "all 8 combinations of fail_on_unknown_properties / fail_on_unknown_attributes / fail_on_converter_warnings as partitions; DictDecoder with unknown keys at every key path",
    ],
    "outside": ["byte level", "models outside the pool"],
    "stubs": ["SAX seam", "CrossHair model pack", "XmlContext.get_subclasses(object) iterates the model pool"],
    "assumptions": [],
}

XSI = seam.XSI
UNKNOWN_EL = ["zzz", "{urn:zz}q", "v", "{urn:a}known", "{urn:b}zz", "n", "@sibling"]  # @sibling: inside a wrapper element, the name of a sibling FIELD of the wrapped list
UNKNOWN_AT = ["zz", "{urn:zz}a", "{%s}foo" % XSI, "{%s}schemaLocation" % XSI, "{%s}noNamespaceSchemaLocation" % XSI, "{%s}type" % XSI]  # xsi:type only with the EMPTY value (see inject_attribute)

_DOC = PART.get("doc", "basic")
_CLS, _OBJ = mutate.DOCS[_DOC]
_STATE = {}
_KNOWN_SIMPLE = known("C10-child-in-simple-content")


def _cfg():
    return ParserConfig(fail_on_unknown_properties=bool(PART.get("fup", 1)), fail_on_unknown_attributes=bool(PART.get("fua", 0)), fail_on_converter_warnings=bool(PART.get("fcw", 0)))


def _setup():
    if not _STATE:
        import contextlib

        try:
            from crosshair.tracers import NoTracing, is_tracing

            guard = NoTracing() if is_tracing() else contextlib.nullcontext()
        except Exception:  # noqa: BLE001
            guard = contextlib.nullcontext()
        with guard:
            ctx = c01._context(_CLS)
            base = mutate.tree_for(_OBJ, "native", None, None, ctx)
            _STATE["ctx"], _STATE["base"] = ctx, base
            _STATE["baseline"] = seam.parse_context(mutate.linearize(base), _CLS, "native", ParserConfig(), ctx)
    return _STATE


_TREE = mutate.tree_for(_OBJ)
_NODES = mutate.nodes(_TREE)
NN = len(_NODES)
# complex positions: the root and every element that has element children (a child inside simple content is the known finding)
COMPLEX = [i for i, n in enumerate(_NODES) if i == 0 or n.children]
ALLPOS = list(range(NN))


def _subtree(shape, name, txt):
    if shape == 0:
        return mutate.Node(name, {}, txt)
    if shape == 1:
        return mutate.Node(name, {"a": "1"}, None, None, [mutate.Node("{urn:a}i", {}, "5")])
    return mutate.Node(name, {}, "t", None, [mutate.Node("inner", {}, txt, "tail", [mutate.Node("{urn:a}s", {"{urn:zz}q": "v"}, "deep")]), mutate.Node("{urn:a}i", {}, "7")])


def inject_element(e: int, slot: int, shape: int, name: int, txt: str) -> bool:
    """
    pre: 0 <= e < len(POS)
    pre: 0 <= slot <= 3
    pre: 0 <= shape <= 2
    pre: 0 <= name < len(UNKNOWN_EL)
    pre: len(txt) <= 1
    post: _
    """
    st = _setup()
    root = st["base"].copy()
    node = mutate.nodes(root)[POS[e]]
    nm = UNKNOWN_EL[name]
    if nm == "@sibling":
        nm = _WRAPPER_SIBLING.get(POS[e])
        if nm is None:
            return True
    # the injected name must be unknown *at that position*: skip names the parent element itself declares
    if nm in _KNOWN_CHILD_NAMES.get(POS[e], ()):
        return True
    if slot > len(node.children):
        return True
    node.children.insert(slot, _subtree(shape, nm, txt))
    cfg = _cfg()
    try:
        with warnings.catch_warnings():
            warnings.simplefilter("ignore")
            obj = seam.parse_context(mutate.linearize(root), _CLS, PART.get("handler", "native"), cfg, st["ctx"])
    except ParserError:
        return result(cfg.fail_on_unknown_properties)
    return result((not cfg.fail_on_unknown_properties) and deep_eq(obj, st["baseline"]))


def inject_attribute(e: int, name: int, txt: str) -> bool:
    """
    pre: 0 <= e < NN
    pre: 0 <= name < len(UNKNOWN_AT)
    pre: len(txt) <= 1
    post: _
    """
    st = _setup()
    root = st["base"].copy()
    node = mutate.nodes(root)[e]
    if e not in COMPLEX_OR_CLASS:
        return True  # attributes on simple-typed elements are ignored by construction (no attribute binding there)
    if _KNOWN_WRAPPER_ATTR and e in _WRAPPER_SIBLING_OR_WRAPPER:
        return True  # exactly the signature of the listed known finding (attribute on a wrapper element)
    if UNKNOWN_AT[name].endswith("}type") and len(txt) > 0:
        return True  # a non-empty unknown xsi:type is a fault (C15), only the empty one is "no type given"
    if UNKNOWN_AT[name].endswith("}type") and UNKNOWN_AT[name] in node.attrs:
        return True
    node.attrs[UNKNOWN_AT[name]] = txt
    cfg = _cfg()
    is_xsi = name >= 2
    try:
        with warnings.catch_warnings():
            warnings.simplefilter("ignore")
            obj = seam.parse_context(mutate.linearize(root), _CLS, PART.get("handler", "native"), cfg, st["ctx"])
    except ParserError:
        return result(cfg.fail_on_unknown_attributes and not is_xsi)
    return result((not cfg.fail_on_unknown_attributes or is_xsi) and deep_eq(obj, st["baseline"]))


def bad_value(txt: str, where: int) -> bool:
    """
    pre: len(txt) <= 2
    pre: small_alphabet(txt)
    pre: len(txt) == 0 or 97 <= ord(txt[0]) <= 122
    pre: 0 <= where <= 1
    post: _
    """
    # doc "basic": element i (int) / attribute n (int)
    st = _setup()
    root = st["base"].copy()
    if where == 0:
        [n for n in mutate.nodes(root) if n.qname == "{urn:a}i"][0].text = txt
    else:
        root.attrs["n"] = txt
    cfg = _cfg()
    try:
        import sys

        ch = sys.modules.get("chmodels")
        if ch is not None:
            del ch.WARNED[:]
        with warnings.catch_warnings(record=True) as w:
            warnings.simplefilter("always")
            obj = seam.parse_context(mutate.linearize(root), _CLS, PART.get("handler", "native"), cfg, st["ctx"])
            warned = any(issubclass(x.category, ConverterWarning) for x in w) or (ch is not None and any(issubclass(c, ConverterWarning) for c in ch.WARNED))
    except ParserError:
        return result(cfg.fail_on_converter_warnings)
    kept = obj.i if where == 0 else obj.num
    from harness.common import str_eq

    return result((not cfg.fail_on_converter_warnings) and warned and isinstance(kept, str) and str_eq(kept, txt))


_DBAD = [True, False, "abc", "", [1], {"z": 1}, 1.5]


def dict_bad_value(k: int) -> bool:
    """
    pre: 0 <= k < len(_DBAD)
    post: _
    """
    # doc "basic": the int field i receives a JSON value that is not an int
    import copy
    import sys

    from harness.common import concretize

    ck = concretize(k, len(_DBAD))
    st = _setup()
    data = copy.deepcopy(DictEncoder(context=st["ctx"]).encode(_OBJ))
    data["i"] = _DBAD[ck]
    cfg = _cfg()
    ch = sys.modules.get("chmodels")
    if ch is not None:
        del ch.WARNED[:]
    try:
        with warnings.catch_warnings(record=True) as w:
            warnings.simplefilter("always")
            obj = DictDecoder(config=cfg, context=st["ctx"]).decode(data, _CLS)
            warned = any(issubclass(x.category, ConverterWarning) for x in w) or (ch is not None and any(issubclass(c, ConverterWarning) for c in ch.WARNED))
    except ParserError:
        # lists / objects for a scalar field are structural errors (always ParserError); scalars fail only when configured to
        return result(cfg.fail_on_converter_warnings or isinstance(_DBAD[ck], (list, dict)))
    return result((not cfg.fail_on_converter_warnings) and warned and not isinstance(obj.i, bool) and not (isinstance(obj.i, int)))


def dict_derived_root(k: int) -> bool:
    """
    pre: 0 <= k <= 2
    post: _
    """
    # a derived-element shaped ROOT document ({"qname","type","value"}) with an unknown key next to the three
    from harness.common import concretize
    from harness.models import Alpha

    ck = concretize(k, 3)
    st = _setup()
    data = {"qname": "alpha", "type": None, "value": {"v": 1}}
    base = DictDecoder(context=st["ctx"]).decode(dict(data), Alpha)
    data[["zz_unknown", "text", "Value"][ck]] = 1
    cfg = _cfg()
    try:
        obj = DictDecoder(config=cfg, context=st["ctx"]).decode(data, Alpha)
    except ParserError:
        return result(cfg.fail_on_unknown_properties)
    # lenient: the unknown key is ignored; whether the remaining keys are then read as a derived element or as Alpha's own
    # (unknown) keys is not specified by the property - only that no information of the original three keys is invented
    return result(not cfg.fail_on_unknown_properties and (obj == base or obj == Alpha()))


def dict_unknown(p: int, n: int) -> bool:
    """
    pre: 0 <= p < NP
    pre: -3 < n < 3
    post: _
    """
    import copy

    st = _setup()
    data = copy.deepcopy(DictEncoder(context=st["ctx"]).encode(_OBJ))
    holder = data
    for key in _DPATHS[p]:
        holder = holder[key]
    holder["zz_unknown"] = [n, {"deep": None}][n % 2] if n else n
    cfg = _cfg()
    base = DictDecoder(context=st["ctx"]).decode(DictEncoder(context=st["ctx"]).encode(_OBJ), _CLS)
    try:
        obj = DictDecoder(config=cfg, context=st["ctx"]).decode(data, _CLS)
    except ParserError:
        return result(cfg.fail_on_unknown_properties)
    return result((not cfg.fail_on_unknown_properties) and deep_eq(obj, base))


_KNOWN_POLY = known("C10-dict-unknown-key-in-polymorphic-object")
_KNOWN_DICT_WRAPPER = known("C10-dict-unknown-key-in-wrapper-object")
_WRAPPER_PATHS = {"wrapped": [("ints",)]}  # own level of wrapper objects (the listed known finding's signature)
# own level of objects that the decoder binds by key-set detection / best match (the listed known finding's signature)
_POLY_LEVELS = {"holder": [("b",), ("bb", "*")], "holdernest": [("b",), ("bb", "*")], "wlderived": [("items", "*")], "family": [("base", "*"), ("derived", "*"), ("sibling", "*"), ("members", "*")], "unionmodels": [("item",), ("it", "*")]}


def _is_poly(path):
    for pat in _POLY_LEVELS.get(_DOC, []):
        if len(pat) == len(path) and all(a == "*" or a == b for a, b in zip(pat, path)):
            return True
    return False


def _dict_paths(d, prefix=()):
    if prefix and prefix[-1] in ("attributes", "attrs"):
        return []  # a key added to an attribute map is a new attribute, not an unknown property
    if _KNOWN_DICT_WRAPPER and PART.get("fup", 1) and prefix in _WRAPPER_PATHS.get(_DOC, []):  # the finding concerns the strict mode only
        return [p for k, v in d.items() for p in _dict_paths(v, prefix + (k,))] if isinstance(d, dict) else []
    if _KNOWN_POLY and _is_poly(prefix) and not PART.get("fup", 1):  # the finding concerns the lenient mode only
        return [p for k, v in d.items() for p in _dict_paths(v, prefix + (k,))] if isinstance(d, dict) else []
    out = [prefix] if isinstance(d, dict) and (not prefix or _is_model_dict(d)) else []
    if isinstance(d, dict):
        for k, v in d.items():
            out.extend(_dict_paths(v, prefix + (k,)))
    elif isinstance(d, list):
        for i, v in enumerate(d):
            out.extend(_dict_paths(v, prefix + (i,)))
    return out


def _is_model_dict(d):
    return True


_DPATHS = _dict_paths(DictEncoder().encode(_OBJ))
NP = len(_DPATHS)

# which names each position's element already knows as children (so an injected element is really unknown there)
_KNOWN_CHILD_NAMES = {}
_WRAPPER_SIBLING_OR_WRAPPER = set()  # positions of wrapper elements
_KNOWN_WRAPPER_ATTR = known("C10-wrapper-element-attributes-ignored")
_WRAPPER_SIBLING = {}  # position of a wrapper element -> qualified name of another element field of the same class


def _known_names():
    from xsdata.formats.dataclass.context import XmlContext

    ctx = XmlContext()
    meta_by_pos = {}

    def walk(node_idx_iter, node, meta):
        idx = next(node_idx_iter)
        names = set()
        if meta is not None:
            for var in meta.get_all_vars():
                if var.is_element or var.elements:
                    names.add(var.qname)
                    for ch in (var.elements.values() if isinstance(var.elements, dict) else var.elements):
                        names.add(ch.qname)
                if var.wrapper_qname:
                    names.add(var.wrapper_qname)
        _KNOWN_CHILD_NAMES[idx] = names
        meta_by_pos[idx] = meta
        for c in node.children:
            cm = None
            wrapped = None
            if meta is not None:
                for var in meta.get_all_vars():
                    if var.qname == c.qname and var.clazz:
                        cm = ctx.build(var.clazz, meta.namespace)
                    if var.wrapper_qname == c.qname:
                        wrapped = var
            pos = walk(node_idx_iter, c, cm)
            if wrapped is not None:
                # the wrapper element: its only known child is the wrapped item
                _KNOWN_CHILD_NAMES[pos] = {wrapped.qname}
                meta_by_pos[pos] = meta
                _WRAPPER_SIBLING_OR_WRAPPER.add(pos)
                others = [v.qname for v in meta.get_all_vars() if v.is_element and v.qname != wrapped.qname and not v.wrapper_qname]
                if others:
                    _WRAPPER_SIBLING[pos] = others[0]
        return idx

    walk(iter(range(10**6)), _TREE, ctx.build(_CLS))
    return meta_by_pos


_META_BY_POS = _known_names()
COMPLEX_OR_CLASS = [i for i in range(NN) if _META_BY_POS.get(i) is not None]
POS = COMPLEX_OR_CLASS if _KNOWN_SIMPLE else ALLPOS

PRE = {}
EXPLAIN = {}


def child_in_simple_witness():
    """Known finding C10-child-in-simple-content through the public text API."""
    from harness.models import Basic
    from xsdata.formats.dataclass.parsers import XmlParser

    xml = '<basic xmlns="urn:a"><i>5<zzz/></i></basic>'
    try:
        return XmlParser(config=ParserConfig(fail_on_unknown_properties=False)).from_string(xml, Basic) == Basic(i=5)
    except Exception:  # noqa: BLE001
        return False


_INJ_DOCS = ["basic", "parenta", "holder", "nillable", "sequential", "wrapped", "nsattr", "lists", "enums", "defaults", "textattr", "unions"]


def plan(tier):
    jobs = []
    quick = tier == "quick"
    combos = [(a, b, c) for a in (0, 1) for b in (0, 1) for c in (0, 1)]
    docs = _INJ_DOCS[:6] if quick else _INJ_DOCS
    for d_i, doc in enumerate(docs):
        for c_i, (fup, fua, fcw) in enumerate(combos):
            if quick and (d_i + c_i) % 2:
                continue
            h = ("native", "lxml")[(d_i + c_i // 2) % 2]
            jobs.append(Job("inject_element", {"doc": doc, "handler": h, "fup": fup, "fua": fua, "fcw": fcw}, 240, 30))
            jobs.append(Job("inject_attribute", {"doc": doc, "handler": h, "fup": fup, "fua": fua, "fcw": fcw}, 240, 30))
    for c_i, (fup, fua, fcw) in enumerate(combos):
        jobs.append(Job("bad_value", {"doc": "basic", "handler": ("native", "lxml")[c_i % 2], "fup": fup, "fua": fua, "fcw": fcw}, 240, 30))
        jobs.append(Job("dict_derived_root", {"doc": "basic", "fup": fup, "fua": fua, "fcw": fcw}, 240, 30, note="selector driven"))
        jobs.append(Job("dict_bad_value", {"doc": "basic", "fup": fup, "fua": fua, "fcw": fcw}, 240, 30, note="selector driven"))
        for doc in (("basic", "parenta", "holder", "wlderived", "holdernest") if quick else ("basic", "parenta", "holder", "lists", "wrapped", "wlderived", "family", "holdernest", "unionmodels")):
            jobs.append(Job("dict_unknown", {"doc": doc, "fup": fup, "fua": fua, "fcw": fcw}, 240, 30))
    return jobs


def poly_unknown_witness():
    """Known finding C10-dict-unknown-key-in-polymorphic-object through the public API."""
    from harness.models import Base, Derived, Holder

    data = {"b": {"x": 1, "y": "q", "zz_unknown": 0}, "bb": []}
    try:
        return DictDecoder(config=ParserConfig(fail_on_unknown_properties=False)).decode(data, Holder) == Holder(b=Derived(x=1, y="q"))
    except Exception:  # noqa: BLE001
        return False


def wrapper_attr_witness():
    """Known finding C10-wrapper-element-attributes-ignored through the public text API."""
    from harness.models import Wrapped
    from xsdata.formats.dataclass.parsers import XmlParser
    from xsdata.formats.dataclass.parsers.config import ParserConfig as PC

    xml = '<wr xmlns="urn:a"><ints bogus="1"><i>1</i></ints><tail>t</tail></wr>'
    try:
        XmlParser(config=PC(fail_on_unknown_attributes=True)).from_string(xml, Wrapped)
    except ParserError:
        return True
    return False


def dict_wrapper_witness():
    """Known finding C10-dict-unknown-key-in-wrapper-object through the public API."""
    from harness.models import Wrapped
    from xsdata.formats.dataclass.parsers.config import ParserConfig as PC

    data = DictEncoder().encode(Wrapped(ints=[1, 2], tail="t"))
    data["ints"]["zz_unknown"] = 1
    try:
        DictDecoder(config=PC(fail_on_unknown_properties=True)).decode(data, Wrapped)
    except ParserError:
        return True
    return False
