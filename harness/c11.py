"""C11 - arbitrary XML survives the generic element model (DESIGN.md §5 C11)."""

from __future__ import annotations

from harness import c01, mutate, seam
from harness.c03 import _tree_eq
from harness.common import PART, known, pick, result
from harness.models import WILD_MODES, Mixed, MixedChoices, Wild, WildList
from harness.specs import _is_pyspace, _is_xml_char, _is_xmlspace
from vlib.jobs import Job

from xsdata.exceptions import ParserError
from xsdata.formats.dataclass.context import XmlContext
from xsdata.formats.dataclass.parsers.config import ParserConfig
from xsdata.formats.dataclass.parsers.tree import TreeParser

META = {
    "functions": [
        "xsdata.formats.dataclass.parsers.tree:TreeParser.start", "xsdata.formats.dataclass.parsers.nodes.wildcard:WildcardNode.bind",
        "xsdata.formats.dataclass.parsers.nodes.wildcard:WildcardNode.child", "xsdata.formats.dataclass.parsers.nodes.wildcard:WildcardNode.fetch_any_children",
        "xsdata.formats.dataclass.parsers.nodes.element:ElementNode.bind_mixed_objects", "xsdata.formats.dataclass.parsers.nodes.element:ElementNode.bind_wild_var",
        "xsdata.formats.dataclass.parsers.nodes.element:ElementNode.bind_wild_text", "xsdata.formats.dataclass.parsers.nodes.element:ElementNode.prepare_generic_value",
        "xsdata.formats.dataclass.serializers.mixins:EventGenerator.convert_any_element", "xsdata.formats.dataclass.serializers.mixins:EventGenerator.convert_derived_element",
        "xsdata.formats.dataclass.serializers.mixins:EventGenerator.convert_mixed_content", "xsdata.formats.dataclass.models.elements:XmlVar.match_namespace",
        "xsdata.formats.dataclass.models.elements:XmlVar._match_namespace", "xsdata.formats.dataclass.parsers.utils:ParserUtils.normalize_content",
    ],
    "bounds": [
        "generic trees: depth <= 2, fan-out <= 2, element/attribute names by selector from {a, {urn:a}a, {urn:b}b, {urn:c}c}, text / tail / attribute values symbolic strings of <= 2 code points (XML chars)",
        "placements: stand-alone TreeParser, single wildcard (Wild), wildcard list (WildList), mixed wildcard (Mixed); wildcard namespace modes ##any/##other/##local/##targetNamespace/uri/list",
    ],
    "outside": ["white-space-only text next to child elements (excepted by the property); while the known finding C01-unicode-space is listed, text made only of str.isspace() characters",
                "the text layer (escaping, CDATA, entities)", "larger trees"],
    "stubs": ["SAX seam", "CrossHair model pack", "XmlContext.get_subclasses(object) iterates the model pool"],
    "assumptions": [],
}

NAMES = ["a", "{urn:a}a", "{urn:b}b", "{urn:c}c"]
ANAMES = ["k", "{urn:b}k", "{urn:d}z"]


def _textok(s):
    """XML chars; either empty or containing a character that no white-space test strips (see 'outside')."""
    cps = [ord(ch) for ch in s]
    if not all([_is_xml_char(c) for c in cps]):
        return False
    if len(s) == 0:
        return True
    return any([all([not _is_xmlspace(c), not _is_pyspace(c)]) for c in cps])


XS = "http://www.w3.org/2001/XMLSchema"
_KNOWN_ATTR_QNAME = known("C11-attribute-qname-rewrite")
_KNOWN_DERIVED_TAIL = known("C11-derived-primitive-tail-lost")
_KNOWN_NONS_MODEL = known("C11-nons-model-in-namespaced-wildcard")


def _leaftext(s):
    """Text of a CHILDLESS element: any XML chars, white-space-only included (the property's exception is only about
    white space next to child elements); XML white space only, to stay clear of the listed unicode-space finding."""
    cps = [ord(ch) for ch in s]
    return all([_is_xml_char(c) for c in cps]) and all([_is_xmlspace(c) for c in cps])


def _gen(shape, n0, n1, n2, s0, s1, a0):
    """shape 0: leaf; 1: one child; 2: two children; 3: child with grandchild; 4: two children, first with a grandchild;
    5: leaf carrying xsi:type="xs:string" with the xs prefix declared on itself; 6: child whose attribute value LOOKS like a
    QName (declared prefix on the element itself / undeclared prefix); 7: nested element with a locally declared prefix in xsi:type;
    8: an element bound by name to a typed model with a wildcard list (typed content inside generic / mixed content, followed by tail text)."""
    def leaf(name, text, tail=None, attrs=None):
        return mutate.Node(NAMES[name], attrs or {}, text if text != "" else None, tail if tail != "" else None)

    root = leaf(n0, s0, None, {ANAMES[a0]: s1} if a0 < len(ANAMES) else {})
    if shape == 5:
        return mutate.Node(NAMES[n0], {"{%s}type" % seam.XSI: "xs:string"}, s0 if s0 != "" else None, None, [], [("xs", XS)])
    if shape == 7:
        inner = mutate.Node(NAMES[n2], {"{%s}type" % seam.XSI: "p:T"}, s1 if s1 != "" else None, None, [], [("p", "urn:b")])
        mid = mutate.Node(NAMES[n1], {}, None, None, [inner])
        root.attrs = {}
        root.text = None
        root.children = [mid]
        return root
    if shape == 10:
        # children of a mixed wildcard WITH primitive choices; the values include the ones that are falsy in Python
        ints = ["0", "5", "-1", "10"]
        kids = [mutate.Node("n", {}, ints[a0 % 4], s0 if s0 != "" else None), mutate.Node("flag", {}, ["false", "true"][n1 % 2], s1 if s1 != "" else None),
                mutate.Node("s", {}, s0 if s0 != "" else None, None), mutate.Node("g", {}, "0", "e")]
        return mutate.Node("mc", {}, "a", None, kids[n2 % 4:] + kids[: n2 % 4])
    if shape == 9:
        # leaf carrying xsi:type="xs:QName" whose VALUE uses a prefix bound (on the leaf itself) to a namespace nothing else in the document uses
        return mutate.Node(NAMES[n0], {"{%s}type" % seam.XSI: "xs:QName"}, "p:nm", None, [], [("xs", XS), ("p", "urn:d")])
    if shape == 8:
        # an element that resolves (by name, through the context) to a TYPED model owning a wildcard list, i.e. typed content nested in generic content
        return mutate.Node("wl", {}, None, None, [mutate.Node("{urn:c}c", {}, s0 if s0 != "" else None), mutate.Node(NAMES[2 + n2 % 2], {ANAMES[a0 % 3]: "v"}, "t")])
    if shape == 6:
        val = ["x:y", "zz:" + s1, "q:thing"][a0 % 3]
        if a0 % 3 == 2 and _KNOWN_ATTR_QNAME:
            val = "q-thing"  # exactly the signature of the listed known finding is excluded
        root.attrs = {}
        root.children = [mutate.Node(NAMES[n1], {"kind": val, "{urn:b}k": s0}, s1 if s1 != "" else None, None, [], [("q", "urn:b")])]
        return root
    if shape == 0:
        return root
    root.text = s0 if s0 != "" else None
    c1 = leaf(n1, s1, s0)
    if shape == 1:
        root.children = [c1]
    elif shape == 2:
        root.children = [c1, leaf(n2, "t", s1, {"k": "v"})]
    elif shape == 3:
        c1.children = [leaf(n2, s0, s1)]
        c1.text = None if shape == 3 and s1 == "" else c1.text
        root.children = [c1]
    else:
        c1.children = [leaf(n2, "u", s0)]
        root.children = [c1, leaf(n0, s1)]
    return root


def _norm(node):
    """Infoset tree of a Node in the shape seam.tree_of produces (text pieces and children in document order)."""
    tkey = "{%s}type" % seam.XSI
    if node.attrs.get(tkey) == "xs:string":
        node = mutate.Node(node.qname, dict(node.attrs, **{tkey: "{%s}string" % XS}), node.text, node.tail, node.children, node.ns)
    if node.attrs.get(tkey) == "xs:QName":
        node = mutate.Node(node.qname, dict(node.attrs, **{tkey: "{%s}QName" % XS}), "{urn:d}nm", node.tail, node.children, node.ns)
    if node.attrs.get(tkey) == "p:T":
        node = mutate.Node(node.qname, dict(node.attrs, **{tkey: "{urn:b}T"}), node.text, node.tail, node.children, node.ns)
    kids = []
    if node.text:
        kids.append(node.text)
    for c in node.children:
        kids.append(_norm(c))
        if c.tail:
            kids.append(c.tail)
    return (node.qname, dict(node.attrs), kids)


def tree_rt(shape: int, n0: int, n1: int, n2: int, s0: str, s1: str, a0: int) -> bool:
    """
    pre: shape == PART.get("shape", 0)
    pre: 0 <= n0 < len(NAMES)
    pre: n1 == (n0 + 1 + PART.get("rot", 0)) % len(NAMES)
    pre: n2 == (n0 + 2) % len(NAMES)
    pre: len(s0) <= SLEN
    pre: len(s1) <= SLEN
    pre: _textok(s0) or (shape == 0 and PART.get("place") != "mixed" and _leaftext(s0))
    pre: _textok(s1)
    pre: 0 <= a0 <= len(ANAMES)
    post: _
    """
    place = PART.get("place", "tree")
    handler = PART.get("handler", "native")
    g = _gen(shape, n0, n1, n2, s0, s1, a0)
    ctx = _ctx()
    if place == "tree" and shape == 5:
        return True  # the tree parser has no types: an xsi:type'd primitive is not comparable with a wildcard capture
    if place == "tree":
        # the stand-alone tree parser builds the same generic tree, with both handlers, as a wildcard field captures
        from harness.common import deep_eq

        obj = TreeParser(context=ctx, handler=seam.SEAM_HANDLERS[handler]).parse(mutate.linearize(g), None)
        obj2 = TreeParser(context=ctx, handler=seam.SEAM_HANDLERS["lxml" if handler == "native" else "native"]).parse(mutate.linearize(g), None)
        host = mutate.Node("{urn:a}wild", {}, None, None, [g])
        captured = seam.parse_context(mutate.linearize(host), Wild, handler, ParserConfig(), c01._context(Wild)).any
        return result(deep_eq(obj, obj2) and deep_eq(obj, captured))
    else:
        if place == "wild2":
            cls, doc = Wild, mutate.Node("{urn:a}wild", {}, None, None, [g, mutate.Node(NAMES[(n0 + 1) % len(NAMES)], {"k": "v"}, "t")])
        elif place == "wild":
            cls, doc = Wild, mutate.Node("{urn:a}wild", {}, None, None, [mutate.Node("{urn:a}known", {}, "1"), g])
        elif place == "list":
            if g.qname.startswith("{urn:") is False:
                return True  # ##other on a class without namespace: unqualified children are not 'other'
            cls, doc = WildList, mutate.Node("wl", {}, None, None, [g, mutate.Node("{urn:c}c", {}, "z")])
        elif place == "choices":
            cls, doc = MixedChoices, g
        else:
            cls, doc = Mixed, mutate.Node("mixed", {}, s0 if s0 != "" else None, None, [g])
            g.tail = s1 if s1 != "" else None
            if shape == 5 and _KNOWN_DERIVED_TAIL:
                g.tail = None  # exactly the signature of the listed known finding is excluded
        obj = seam.parse_context(mutate.linearize(doc), cls, handler, ParserConfig(), ctx)
    calls = seam.to_sax(obj, PART.get("writer", "native"), None, None, ctx)
    if seam.monitor(calls, PART.get("writer", "native") == "native"):
        return result(False)
    return result(_tree_eq(seam.tree_of(calls, qnames=[g.qname] if shape == 9 else ()), [_norm(doc)]))


_CTXS = {}


def _ctx():
    place = PART.get("place", "tree")
    cls = {"wild": Wild, "wild2": Wild, "list": WildList, "mixed": Mixed, "choices": MixedChoices}.get(place)
    return c01._context(cls)


SLEN = PART.get("slen", 2)
QN = ["x", "{urn:a}x", "{urn:b}x", "{urn:c}x"]


def _xsd_allows(mode, qname):
    """XSD wildcard namespace constraint, read independently (target namespace urn:a)."""
    uri = qname[1:].split("}")[0] if qname.startswith("{") else None
    if mode == 0:
        return True
    if mode == 1:  # ##other as documented by xsdata: any namespace other than the parent's namespace (absent counts as other)
        return uri != "urn:a"
    if mode == 2:
        return uri is None
    if mode == 3:
        return uri == "urn:a"
    if mode == 4:
        return uri == "urn:b"
    return uri is None or uri == "urn:b"


def ns_rule(mode: int, q: int, s0: str) -> bool:
    """
    pre: 0 <= mode < len(WILD_MODES)
    pre: 0 <= q < len(QN)
    pre: len(s0) <= 1
    pre: _textok(s0)
    post: _
    """
    cls = pick(WILD_MODES, mode)
    doc = mutate.Node("{urn:a}w", {}, None, None, [mutate.Node(QN[q], {}, s0 if s0 != "" else None)])
    ctx = c01._context(cls)
    try:
        obj = seam.parse_context(mutate.linearize(doc), cls, PART.get("handler", "native"), ParserConfig(), ctx)
    except ParserError:
        return result(not _xsd_allows(mode, QN[q]))
    return result(_xsd_allows(mode, QN[q]) and len(obj.any) == 1 and obj.any[0].qname == QN[q])


PRE = {}
EXPLAIN = {}


def plan(tier):
    jobs = []
    quick = tier == "quick"
    for p_i, place in enumerate(("tree", "wild", "list", "mixed", "wild2")):
        for shape in range(10):
            for h_i, handler in enumerate(("native", "lxml")):
                if shape == 8 and place not in ("mixed", "wild"):
                    continue
                if shape == 9 and place not in ("wild", "list"):
                    continue
                if shape == 8 and place == "wild" and _KNOWN_NONS_MODEL:
                    continue  # exactly the signature of the listed known finding (namespace-less model under a namespaced parent's wildcard)
                if quick and (p_i + shape + h_i) % 2 and shape != 9:
                    continue
                if place == "tree" and shape == 5:
                    continue  # not comparable (see tree_rt)
                if place == "wild2" and shape not in (0, 1, 7):
                    continue
                for writer in (("native", "lxml") if not quick else (("native", "lxml")[(h_i + shape) % 2],)):
                    for rot in ((0,) if quick else (0, 1, 2)):
                        jobs.append(Job("tree_rt", {"place": place, "shape": shape, "rot": rot, "handler": handler, "writer": writer, "slen": 1 if quick else 2}, 240 if quick else 1200, 30))
    for handler in ("native", "lxml"):
        jobs.append(Job("tree_rt", {"place": "choices", "shape": 10, "rot": 0, "handler": handler, "writer": ("lxml", "native")[handler == "lxml"], "slen": 1 if quick else 2}, 240 if quick else 1200, 30))
    for handler in ("native", "lxml"):
        jobs.append(Job("ns_rule", {"handler": handler}, 240, 30))
    return jobs


def root_render_witness():
    """Known finding C11-root-anyelement-render through the public API."""
    from xsdata.formats.dataclass.parsers import TreeParser as TP
    from xsdata.formats.dataclass.serializers import XmlSerializer
    from xsdata.formats.dataclass.serializers.config import SerializerConfig

    tree = TP().from_string('<c xmlns="urn:c" k="v">x<d/></c>')
    text = XmlSerializer(config=SerializerConfig(xml_declaration=False)).render(tree)
    return TP().from_string(text) == tree


def attr_qname_witness():
    """Known finding C11-attribute-qname-rewrite through the public API."""
    from xsdata.formats.dataclass.parsers import XmlParser
    from xsdata.formats.dataclass.serializers import XmlSerializer

    xml = '<wild xmlns="urn:a"><x:foo xmlns:x="urn:c" xmlns:q="urn:b" kind="q:thing">t</x:foo></wild>'
    obj = XmlParser().from_string(xml, Wild)
    return 'kind="q:thing"' in XmlSerializer().render(obj) and obj.any.attributes["kind"] == "q:thing"


def xsi_type_drift_witness():
    """Known finding C11-xsi-type-drift through the public API."""
    from xsdata.formats.dataclass.parsers import XmlParser
    from xsdata.formats.dataclass.serializers import XmlSerializer

    xml = ('<wild xmlns="urn:a"><x:foo xmlns:x="urn:c" xmlns:xs="http://www.w3.org/2001/XMLSchema" '
           'xmlns:xsi="http://www.w3.org/2001/XMLSchema-instance" xsi:type="xs:int">5</x:foo></wild>')
    return 'xsi:type="xs:int"' in XmlSerializer().render(XmlParser().from_string(xml, Wild))


def derived_tail_witness():
    """Known finding C11-derived-primitive-tail-lost through the public API."""
    from xsdata.formats.dataclass.parsers import XmlParser
    from xsdata.formats.dataclass.serializers import XmlSerializer

    xml = ('<mixed xmlns:xs="http://www.w3.org/2001/XMLSchema" xmlns:xsi="http://www.w3.org/2001/XMLSchema-instance">'
           'a<c xsi:type="xs:string">t</c>TAIL</mixed>')
    return "TAIL" in XmlSerializer().render(XmlParser().from_string(xml, Mixed))


def nons_model_witness():
    """Known finding C11-nons-model-in-namespaced-wildcard through the public API."""
    from xsdata.formats.dataclass.parsers import XmlParser
    from xsdata.formats.dataclass.serializers import XmlSerializer

    xml = '<wild xmlns="urn:a"><known>1</known><wl xmlns=""><c:c xmlns:c="urn:c"/></wl></wild>'
    obj = XmlParser().from_string(xml, Wild)
    return XmlParser().from_string(XmlSerializer().render(obj), Wild) == obj
