"""C12 - code generation is reproducible: ORDERING KERNELS ONLY (DESIGN.md §5 C12).

The interpreter's hash seed becomes a choice: the name `set` in the globals of the codegen modules that iterate sets is bound
to a subclass whose iteration order is a permutation picked by symbolic integers, and `id` in the modules that derive
identifiers from object addresses returns distinct integers whose relative order is picked the same way.  The result of the REAL
analysis pipeline (SchemaParser -> SchemaMapper -> ClassContainer.process -> DependenciesResolver) under the picked permutation
must equal the result under the identity permutation.  Byte-identical files, CLI/config routes: not decided (no renderer, no click).
"""

from __future__ import annotations

import importlib

from harness.common import PART, concretize, result, untraced
from vlib import shims
from vlib.jobs import Job

shims.install()

from xsdata.codegen.container import ClassContainer  # noqa: E402
from xsdata.codegen.mappers.schema import SchemaMapper  # noqa: E402
from xsdata.codegen.parsers.schema import SchemaParser  # noqa: E402
from xsdata.codegen.resolver import DependenciesResolver  # noqa: E402
from xsdata.formats.converter import converter  # noqa: E402
from xsdata.models.config import GeneratorConfig, StructureStyle  # noqa: E402

META = {
    "functions": [
        "xsdata.codegen.handlers.designate_class_packages:DesignateClassPackages.run", "xsdata.codegen.handlers.designate_class_packages:DesignateClassPackages.sort_classes",
        "xsdata.codegen.handlers.designate_class_packages:DesignateClassPackages.strongly_connected_classes", "xsdata.utils.graphs:strongly_connected_components",
        "xsdata.codegen.resolver:DependenciesResolver.process", "xsdata.codegen.resolver:DependenciesResolver.create_class_list", "xsdata.codegen.resolver:DependenciesResolver.sorted_imports",
        "xsdata.codegen.resolver:DependenciesResolver.sorted_classes", "xsdata.codegen.models:Attr.native_types", "xsdata.formats.converter:ConverterFactory.sort_types",
        "xsdata.models.xsd:Sequence.get_restrictions", "xsdata.models.xsd:Choice.get_restrictions", "xsdata.codegen.handlers.reset_attribute_sequence_numbers:ResetAttributeSequenceNumbers.process",
        "xsdata.codegen.container:ClassContainer.process",
    ],
    "bounds": [
        "dependency graphs on 3 named complex types (6 edge booleans, plus a union-typed attribute and nested sequence/choice groups), rendered as an XSD text and pushed through the real pipeline",
        "set iteration: every `set(...)` built in 12 codegen modules iterates in an order chosen by 4 symbolic picks (each 0..2, reused cyclically) unless all its elements are ints (hash(int) is seed independent); "
        "id(): every id() call in xsdata (11 modules: particle paths, Class.ref, reference links) returns distinct integers ordered by the same picks",
        "reproducible_multi: sets of three schemas in three namespaces / files (module paths differing in two parts) with same-named / case-colliding types, so that import aliases are computed; 4 name triples x 3 structure bits x the same pick vectors",
        "transformer_history: every history of 3 calls of the real ResourceTransformer.process (programmatic entry point, real files, real on-disk cache in a private temp dir) over 3 schema files x cache on/off; "
        "every call must produce what a fresh uncached run on the same file produces",
        "config_routes: every pair of 9 generator options; project file (GeneratorConfig.write -> read) holding any of their values, command-line flags absent or set to any value (False / 0 included) "
        "laid over it with GeneratorOutput.update exactly as cli.generate does, against the same effective options set through the API: the configurations must be equal",
        "structure styles as partitions (quick: filenames, clusters, single-package; thorough: all five)",
        "selector driven: every (graph, pick vector) in the bound is executed; each path runs concretely",
    ],
    "outside": ["byte-identical files (no renderer: jinja2 absent)", "the click layer itself (option parsing, model_options; click absent) - the flag-to-config step behind it is covered by config_routes", "a cached source whose CONTENT changes between runs (staleness is what the cache option asks for)", "set literals / comprehensions and C-level consumers of sets (not intercepted)",
                "more than 3 classes, more than 4 independent picks"],
    "stubs": ["absent-package shims (click, jinja2, toposort)", "PermSet injected as `set` into module globals; permuted id()"],
    "assumptions": ["C-level consumers of a set subclass bypass __iter__ only where order cannot matter (update, in, len)"],
}

SET_MODULES = [
    "xsdata.utils.graphs", "xsdata.utils.collections", "xsdata.codegen.models", "xsdata.codegen.resolver", "xsdata.codegen.utils",
    "xsdata.codegen.handlers.designate_class_packages", "xsdata.codegen.handlers.filter_classes", "xsdata.codegen.handlers.detect_circular_references",
    "xsdata.codegen.handlers.validate_references", "xsdata.codegen.handlers.disambiguate_choices", "xsdata.codegen.handlers.update_attributes_effective_choice",
    "xsdata.codegen.handlers.rename_duplicate_classes",
]
# every xsdata module that calls id(): particle path identifiers, Class.ref and the `reference` links between classes (all of them see the SAME permuted numbering)
ID_MODULES = ["xsdata.models.xsd", "xsdata.codegen.models", "xsdata.codegen.utils", "xsdata.codegen.handlers.process_attributes_types", "xsdata.codegen.handlers.flatten_class_extensions",
              "xsdata.codegen.handlers.validate_references", "xsdata.codegen.handlers.add_attribute_substitutions", "xsdata.codegen.handlers.disambiguate_choices",
              "xsdata.codegen.handlers.unnest_inner_classes", "xsdata.codegen.handlers.create_compound_fields", "xsdata.codegen.handlers.reset_attribute_sequence_numbers"]

_PICKS = [0, 0, 0, 0]
_CURSOR = [0]
_IDS = {}
_real_id = id


def _next_pick():
    v = _PICKS[_CURSOR[0] % len(_PICKS)]
    _CURSOR[0] += 1
    return v


class PermSet(set):
    """set whose iteration order is canonical-order permuted by the current pick vector."""

    def __iter__(self):
        if all(type(x) in (int, bool) for x in set.__iter__(self)):
            # hash(int) does not depend on PYTHONHASHSEED: CPython iterates a set of ints in the same order in every run, so that
            # order is reproducible (permuting it made DisambiguateChoices' set of choice indexes look nondeterministic: a false alarm)
            return set.__iter__(self)
        items = sorted(set.__iter__(self), key=repr)
        out = []
        while items:
            out.append(items.pop(_next_pick() % len(items)))
        return iter(out)

    # the results of set algebra are sets too (the built-in operators return a plain `set` for subclasses)
    def __sub__(self, other):
        return PermSet(set.__sub__(self, other))

    def __and__(self, other):
        return PermSet(set.__and__(self, other))

    def __or__(self, other):
        return PermSet(set.__or__(self, other))

    def __xor__(self, other):
        return PermSet(set.__xor__(self, other))

    def difference(self, *others):
        return PermSet(set.difference(self, *others))

    def union(self, *others):
        return PermSet(set.union(self, *others))

    def intersection(self, *others):
        return PermSet(set.intersection(self, *others))

    def symmetric_difference(self, other):
        return PermSet(set.symmetric_difference(self, other))

    def copy(self):
        return PermSet(set.copy(self))


def _fake_id(obj):
    key = _real_id(obj)
    if key not in _IDS:
        _IDS[key] = (len(_IDS) + 1) + 1000003 * ((_next_pick() * 7 + len(_IDS) * 3) % 5)
        _KEEP.append(obj)  # keep the object alive so that real ids are not reused within a run
    return _IDS[key]


_KEEP = []
_INSTALLED = False


def _install():
    global _INSTALLED
    if _INSTALLED:
        return
    _INSTALLED = True
    for name in SET_MODULES:
        importlib.import_module(name).__dict__["set"] = PermSet
    for name in ID_MODULES:
        importlib.import_module(name).__dict__["id"] = _fake_id


EDGES = [("A", "B"), ("A", "C"), ("B", "A"), ("B", "C"), ("C", "A"), ("C", "B")]


def _xsd(bits):
    body = {"A": [], "B": [], "C": []}
    for bit, (src, dst) in zip(bits, EDGES):
        if bit:
            body[src].append(f'<xs:element name="to{dst}" type="{dst}" minOccurs="0"/>')
    types = []
    for name in ("A", "B", "C"):
        types.append(
            f'<xs:complexType name="{name}"><xs:sequence>{"".join(body[name])}'
            f'<xs:choice maxOccurs="unbounded"><xs:element name="x" type="xs:int"/><xs:sequence><xs:element name="y" type="xs:string"/><xs:element name="z" type="xs:date"/></xs:sequence></xs:choice>'
            f'</xs:sequence><xs:attribute name="u" type="U"/></xs:complexType>'
        )
    return (
        '<xs:schema xmlns:xs="http://www.w3.org/2001/XMLSchema" targetNamespace="urn:t" xmlns="urn:t" elementFormDefault="qualified">'
        '<xs:element name="root" type="A"/><xs:element name="other" type="C"/><xs:element name="seq" type="S"/><xs:element name="seq2" type="S2"/>'
        '<xs:complexType name="S"><xs:sequence maxOccurs="3"><xs:element name="k" type="xs:string"/><xs:choice><xs:element name="p" type="xs:int"/><xs:element name="q" type="xs:string"/></xs:choice></xs:sequence></xs:complexType>'
        '<xs:complexType name="S2"><xs:choice maxOccurs="unbounded"><xs:element name="p2" type="xs:int"/><xs:element name="q2" type="xs:string"/><xs:element name="r" type="xs:token"/><xs:element name="t" type="xs:long"/></xs:choice></xs:complexType>'
        '<xs:element name="nest"><xs:complexType><xs:sequence><xs:element name="customer"><xs:complexType><xs:sequence><xs:element name="address"><xs:complexType><xs:sequence>'
        '<xs:element name="street" type="xs:string"/><xs:element name="geo"><xs:complexType><xs:attribute name="lat" type="xs:decimal"/></xs:complexType></xs:element>'
        '</xs:sequence></xs:complexType></xs:element></xs:sequence></xs:complexType></xs:element>'
        '<xs:element name="vendor"><xs:complexType><xs:sequence><xs:element name="address"><xs:complexType><xs:attribute name="zip" type="xs:string"/></xs:complexType></xs:element></xs:sequence></xs:complexType></xs:element>'
        '</xs:sequence></xs:complexType></xs:element>'
        '<xs:simpleType name="U"><xs:union memberTypes="xs:string xs:int xs:boolean xs:decimal xs:float"/></xs:simpleType>'
        + "".join(types)
        + "</xs:schema>"
    )


STYLES = list(StructureStyle)


def _generate(bits, style, picks, multi=None):
    _install()
    _PICKS[:] = picks
    _CURSOR[0] = 0
    _IDS.clear()
    del _KEEP[:]
    cfg = GeneratorConfig()
    cfg.output.structure_style = STYLES[style]
    cfg.output.compound_fields.enabled = bool(PART.get("compound", 0))
    cfg.output.unnest_classes = bool(PART.get("unnest", 0))
    if multi is not None:
        from harness import multins

        container = multins.container_for(multins.schema_set(*multi), cfg)
    else:
        schema = SchemaParser(location="file:///t.xsd").from_string(_xsd(bits))
        classes = SchemaMapper.map(schema)
        container = ClassContainer(config=cfg)
        container.extend(classes)
        container.process()
    out = []
    for cls in sorted(container, key=lambda c: c.qname):
        attrs = []
        for a in cls.attrs:
            r = a.restrictions
            # what reaches the rendered output: names, type order, the restrictions dictionary the templates emit
            # (Restrictions.asdict drops the id()-derived choice/group/path keys; `sequence` is emitted after renumbering)
            nt = a.native_types
            choices = [(c.name, [t.qname for t in c.types], sorted(c.restrictions.asdict(c.native_types).items(), key=repr)) for c in a.choices]  # compound fields: emitted as metadata of each choice
            attrs.append((a.name, [t.qname for t in a.types], [t.__name__ for t in converter.sort_types(nt)], sorted(r.asdict(nt).items(), key=repr), a.default, a.fixed, choices))
        out.append((cls.qname, cls.package, cls.module, attrs, [c.qname for c in cls.inner]))
    registry = {cls.qname: cls.target_module for cls in container}
    modules = {}
    for cls in container:
        modules.setdefault(cls.target_module, []).append(cls)
    order = []
    for module in sorted(modules):
        resolver = DependenciesResolver(registry=registry)
        resolver.process(modules[module])
        order.append((module, [c.qname for c in resolver.sorted_classes()], [(i.qname, i.source, i.alias) for i in resolver.sorted_imports()]))
    return out, order


def reproducible(e0: bool, e1: bool, e2: bool, e3: bool, e4: bool, e5: bool, p0: int, p1: int, p2: int, p3: int) -> bool:
    """
    pre: e0 == bool(PART.get("e0", 0))
    pre: e1 == bool(PART.get("e1", 0))
    pre: 0 <= p0 <= 2
    pre: 0 <= p1 <= 2
    pre: 0 <= p2 <= 2
    pre: 0 <= p3 <= 2
    post: _
    """
    bits = [bool(concretize(int(b), 2)) for b in (e0, e1, e2, e3, e4, e5)]
    picks = [concretize(p, 3) for p in (p0, p1, p2, p3)]
    with untraced():
        return result(_same(bits, picks))


MULTI_NAMES = [("Foo", "Foo", "Foo"), ("Foo", "Foo", "Bar"), ("Foo", "foo", "Order"), ("Foo", "Bar", "Baz")]


def reproducible_multi(names: int, choice: bool, local: bool, cross: bool, p0: int, p1: int, p2: int, p3: int) -> bool:
    """
    pre: names == PART.get("names", 0)
    pre: 0 <= p0 <= 2
    pre: 0 <= p1 <= 2
    pre: 0 <= p2 <= 2
    pre: 0 <= p3 <= 2
    post: _
    """
    n = concretize(names, len(MULTI_NAMES))
    bits = [bool(concretize(int(b), 2)) for b in (choice, local, cross)]
    picks = [concretize(p, 3) for p in (p0, p1, p2, p3)]
    with untraced():
        return result(_same_multi(n, bits, picks))


def _same_multi(n, bits, picks):
    """Three schemas in three namespaces / files whose module paths differ in two parts (acme/billing/v1 vs acme/shipping/v2): same-named
    classes imported into one module get aliases computed from set differences of the path parts."""
    style = PART.get("style", 0)
    multi = MULTI_NAMES[n] + tuple(bits)
    if multi not in _BASE:
        _BASE[multi] = _generate(None, style, [0, 0, 0, 0], multi)
    return _BASE[multi] == _generate(None, style, picks, multi)


_BASE = {}


def explain_multi(names, choice, local, cross, p0, p1, p2, p3):
    style = PART.get("style", 0)
    multi = MULTI_NAMES[names] + (choice, local, cross)
    base = _generate(None, style, [0, 0, 0, 0], multi)
    got = _generate(None, style, [p0, p1, p2, p3], multi)
    diff = [(a, b) for a, b in zip(base[0] + base[1], got[0] + got[1]) if a != b][:2]
    return {"names": MULTI_NAMES[names], "style": STYLES[style].value, "first_differences": repr(diff)[:1500]}


# ---------------------------------------------------------------------------------------------------------------------
# repeated runs through the programmatic entry point (ResourceTransformer.process) with and without its on-disk cache
_TR = {}
TR_OPS = [("a/schema.xsd", False), ("a/schema.xsd", True), ("b/schema.xsd", False), ("b/schema.xsd", True), ("a/other.xsd", False), ("a/other.xsd", True)]


def _tr_setup():
    """Three schema files (two of them share their file name in different directories) in a private temp dir that also holds the cache files."""
    if _TR:
        return _TR
    import atexit
    import pathlib
    import shutil
    import tempfile

    from xsdata.codegen.writer import CodeWriter
    from xsdata.formats.mixins import AbstractGenerator

    root = pathlib.Path(tempfile.mkdtemp(prefix="xsv_c12_"))
    atexit.register(shutil.rmtree, str(root), True)
    (root / "cache").mkdir()
    tempfile.tempdir = str(root / "cache")  # ResourceTransformer.get_cache_file uses tempfile.gettempdir()
    body = {
        "a/schema.xsd": '<xs:element name="Invoice"><xs:complexType><xs:sequence><xs:element name="number" type="xs:string"/></xs:sequence></xs:complexType></xs:element>',
        "b/schema.xsd": '<xs:element name="Invoice"><xs:complexType><xs:sequence><xs:element name="number" type="xs:int"/><xs:element name="currency" type="xs:string"/></xs:sequence></xs:complexType></xs:element>'
                        '<xs:element name="CreditNote"><xs:complexType><xs:attribute name="reason" type="xs:string"/></xs:complexType></xs:element>',
        "a/other.xsd": '<xs:element name="Receipt"><xs:complexType><xs:sequence><xs:element name="total" type="xs:decimal"/></xs:sequence></xs:complexType></xs:element>',
    }
    for rel, inner in body.items():
        f = root / rel
        f.parent.mkdir(exist_ok=True)
        f.write_text(f'<xs:schema xmlns:xs="http://www.w3.org/2001/XMLSchema" targetNamespace="urn:demo" elementFormDefault="qualified">{inner}</xs:schema>')
    captured = []

    class Capture(AbstractGenerator):
        def render(self, classes):
            captured.append([(c.qname, c.target_module, [(a.name, [t.qname for t in a.types], a.tag) for a in c.attrs]) for c in classes])
            return iter(())

    CodeWriter.register_generator("xsv-capture", Capture)
    _TR.update(root=root, captured=captured)
    return _TR


def _tr_run(rel, cache):
    from xsdata.codegen.transformer import ResourceTransformer

    st = _tr_setup()
    cfg = GeneratorConfig()
    cfg.output.format.value = "xsv-capture"
    cfg.output.structure_style = STYLES[PART.get("style", 0)]
    del st["captured"][:]
    ResourceTransformer(config=cfg).process([(st["root"] / rel).as_uri()], cache=cache)
    return [sorted(x, key=repr) for x in st["captured"]]


def _tr_history(ops):
    st = _tr_setup()
    for f in (st["root"] / "cache").glob("*"):
        f.unlink()
    ref = st.setdefault("ref", {})
    out = {"ok": True, "history": [TR_OPS[o] for o in ops]}
    for n, o in enumerate(ops):
        rel, cache = TR_OPS[o]
        got = _tr_run(rel, cache)
        if rel not in ref:
            ref[rel] = _tr_run(rel, False)  # an uncached run neither reads nor writes the cache directory
        if got != ref[rel]:
            out["ok"] = False
            out["problem"] = f"step {n} ({rel}, cache={cache}): {repr(got)[:300]} instead of {repr(ref[rel])[:300]}"
            break
    return out


def transformer_history(o0: int, o1: int, o2: int) -> bool:
    """
    pre: 0 <= o0 < len(TR_OPS)
    pre: 0 <= o1 < len(TR_OPS)
    pre: 0 <= o2 < len(TR_OPS)
    post: _
    """
    ops = [concretize(o, len(TR_OPS)) for o in (o0, o1, o2)]
    with untraced():
        return result(_tr_history(ops)["ok"])


# ---------------------------------------------------------------------------------------------------------------------
# configuration routes: options passed through the API versus a project file laid under command-line flags
# (cli.generate: params = non-None flags with "__" -> "."; config = GeneratorConfig.read(file); config.output.update(**params))
CFG_OPTS = [
    ("unnest_classes", [False, True]), ("compound_fields__enabled", [False, True]), ("relative_imports", [False, True]), ("wrapper_fields", [False, True]),
    ("max_line_length", [79, 0, 120]), ("structure_style", [StructureStyle.FILENAMES, StructureStyle.CLUSTERS]), ("compound_fields__max_name_parts", [3, 0]),
    ("format__slots", [False, True]), ("ignore_patterns", [False, True]),
]


def _cfg_set(cfg, key, value):
    obj = cfg.output
    names = key.split("__")
    for n in names[:-1]:
        obj = getattr(obj, n)
    setattr(obj, names[-1], value)


def _config_routes(opt_a, opt_b, fa, fb, pa, pb):
    """Two options (indices into CFG_OPTS).  File values fa / fb (indices into their value lists), flag values pa / pb (0 = flag not given,
    n = value n-1).  Route 1: project file written by GeneratorConfig.write, read back, flags laid over it the way cli.generate does.
    Route 2: the same effective options set directly on a fresh GeneratorConfig."""
    import io
    import pathlib
    import tempfile
    import warnings

    (ka, va), (kb, vb) = CFG_OPTS[opt_a], CFG_OPTS[opt_b]
    if ka == kb:
        return {"ok": True, "skipped": "same option twice"}
    with warnings.catch_warnings():
        warnings.simplefilter("ignore")
        filecfg = GeneratorConfig.create()
        _cfg_set(filecfg, ka, va[fa % len(va)])
        _cfg_set(filecfg, kb, vb[fb % len(vb)])
        buf = io.StringIO()
        GeneratorConfig.write(buf, filecfg)
        fd, path = tempfile.mkstemp(suffix=".xml")
        try:
            with open(fd, "w") as f:
                f.write(buf.getvalue())
            loaded = GeneratorConfig.read(pathlib.Path(path))
        finally:
            import os

            os.unlink(path)
        kwargs = {ka: None if pa == 0 else va[(pa - 1) % len(va)], kb: None if pb == 0 else vb[(pb - 1) % len(vb)]}
        params = {k.replace("__", "."): v for k, v in kwargs.items() if v is not None}
        loaded.output.update(**params)
        api = GeneratorConfig.create()
        for key, vals, fidx, pidx in ((ka, va, fa, pa), (kb, vb, fb, pb)):
            _cfg_set(api, key, vals[fidx % len(vals)] if pidx == 0 else vals[(pidx - 1) % len(vals)])
    ok = loaded == api
    return {"ok": ok, "options": [ka, kb], "file": [repr(va[fa % len(va)]), repr(vb[fb % len(vb)])], "flags": repr(kwargs),
            "file_plus_flags": repr(loaded.output)[:600], "api": repr(api.output)[:600]}


def config_routes(opt_a: int, opt_b: int, fa: int, fb: int, pa: int, pb: int) -> bool:
    """
    pre: opt_a == PART.get("a", 0)
    pre: opt_a < opt_b < len(CFG_OPTS)
    pre: 0 <= fa <= 2
    pre: 0 <= fb <= 2
    pre: 0 <= pa <= 3
    pre: 0 <= pb <= 3
    post: _
    """
    ca, cb = concretize(opt_a, len(CFG_OPTS)), concretize(opt_b, len(CFG_OPTS))
    vals = [concretize(fa, 3), concretize(fb, 3), concretize(pa, 4), concretize(pb, 4)]
    with untraced():
        return result(_config_routes(ca, cb, *vals)["ok"])


def _same(bits, picks):
    style = PART.get("style", 0)
    base = _generate(bits, style, [0, 0, 0, 0])
    got = _generate(bits, style, picks)
    return base == got


def explain(e0, e1, e2, e3, e4, e5, p0, p1, p2, p3):
    bits = [e0, e1, e2, e3, e4, e5]
    style = PART.get("style", 0)
    base = _generate(bits, style, [0, 0, 0, 0])
    got = _generate(bits, style, [p0, p1, p2, p3])
    diff = [(a, b) for a, b in zip(base[0] + base[1], got[0] + got[1]) if a != b][:2]
    return {"edges": [e for b, e in zip(bits, EDGES) if b], "style": STYLES[style].value, "first_differences": repr(diff)[:1500]}


PRE = {}
EXPLAIN = {"reproducible": explain, "reproducible_multi": explain_multi, "transformer_history": lambda o0, o1, o2: _tr_history([o0, o1, o2]), "config_routes": _config_routes}


def plan(tier):
    jobs = []
    styles = [0, 3, 4] if tier == "quick" else range(len(STYLES))
    for style in styles:
        for e0 in (0, 1):
            for e1 in (0, 1):
                for compound in (((0, 1) if style == 0 else (0,)) if tier == "quick" else (0, 1)):
                    jobs.append(Job("reproducible", {"style": style, "e0": e0, "e1": e1, "compound": compound, "unnest": int(tier != "quick" and (e0 + e1 + compound) % 2)}, 600 if tier == "quick" else 3000, 60, note="selector driven"))
    for style in ([0, 1] if tier == "quick" else range(len(STYLES))):
        for compound in (0, 1):
            for names in range(len(MULTI_NAMES)):
                if tier == "quick" and (names + style + compound) % 2:
                    continue
                jobs.append(Job("reproducible_multi", {"style": style, "compound": compound, "names": names}, 900 if tier == "quick" else 3000, 60, note="selector driven, three namespaces / files"))
    for style in ([0] if tier == "quick" else [0, 3]):
        for e0 in (0, 1):
            jobs.append(Job("reproducible", {"style": style, "e0": e0, "e1": 1 - e0, "compound": 0, "unnest": 1}, 600 if tier == "quick" else 3000, 60, note="selector driven, unnest_classes on"))
    for a in range(len(CFG_OPTS) - 1):
        jobs.append(Job("config_routes", {"a": a}, 900, 60, note="selector driven: pairs of options x file values x command-line flag values (incl. falsy) vs the API route"))
    for style in ([0] if tier == "quick" else [0, 1, 3]):
        jobs.append(Job("transformer_history", {"style": style}, 600, 60, note="selector driven: histories of 3 ResourceTransformer.process calls with / without the on-disk cache"))
    return jobs
