"""C14 - parsers, serializers and the binding context are history-independent (DESIGN.md §5 C14)."""

from __future__ import annotations

from harness import mutate, seam
from harness.common import PART, concretize, known, result, untraced
from harness.models import *  # noqa: F401,F403
from harness.models import ALL_MODELS
from vlib.jobs import Job

from xsdata.formats.dataclass.context import XmlContext
from xsdata.formats.dataclass.parsers.bases import NodeParser
from xsdata.formats.dataclass.parsers.config import ParserConfig
from xsdata.formats.dataclass.parsers.dict import DictDecoder
from xsdata.formats.dataclass.serializers.dict import DictEncoder

META = {
    "functions": [
        "xsdata.formats.dataclass.context:XmlContext.build", "xsdata.formats.dataclass.context:XmlContext.fetch", "xsdata.formats.dataclass.context:XmlContext.build_xsi_cache",
        "xsdata.formats.dataclass.context:XmlContext.find_types", "xsdata.formats.dataclass.context:XmlContext.find_type", "xsdata.formats.dataclass.context:XmlContext.find_subclass",
        "xsdata.formats.dataclass.context:XmlContext.find_type_by_fields", "xsdata.formats.dataclass.models.elements:XmlVar.match_namespace",
        "xsdata.formats.dataclass.parsers.bases:NodeParser.parse", "xsdata.formats.dataclass.parsers.mixins:PushParser.register_namespace",
        "xsdata.formats.dataclass.serializers.mixins:EventGenerator.generate", "xsdata.formats.dataclass.parsers.dict:DictDecoder.decode",
        "xsdata.formats.dataclass.serializers.dict:DictEncoder.encode", "xsdata.utils.namespaces:build_qname", "xsdata.utils.namespaces:split_qname",
    ],
    "bounds": [
        "histories of <= 3 (quick: third operation from 12 state-observing ones) / <= 4 (thorough) operations, each a selector into a pool of 36 operations (incl. one ENVIRONMENT step: a module with a second class for an already resolved qualified name is imported) (serialize / parse / encode / decode over ParentA, ParentB, Child, "
        "Holder with xsi:type, Wild with wildcard namespace memo, Lists, Basic; lookups without a target class; three failing calls), applied to ONE shared XmlContext, "
        "NodeParser (native and lxml seam handlers), EventGenerator, DictEncoder and DictDecoder; every call's outcome (value or exception class) is compared with the same call on fresh instances",
        "selector driven: every history within the bound is executed (the solver only prunes and enumerates); nothing here is value-symbolic",
    ],
    "outside": ["longer histories", "models outside the pool", "the text layer"],
    "stubs": ["SAX seam", "XmlContext.get_subclasses(object) iterates the model pool (a mutable list: the environment step appends to it)", "each history runs in a forked child of the worker (process-wide state stays pristine between histories)"],
    "assumptions": [],
}

_KNOWN_CACHE = known("C14-cache-parent-namespace")


# the loaded model classes are environment: a mutable list, so that a history can contain "a further module is imported"
_LOADED = list(ALL_MODELS) + [LateV1]
_DUMMY_MODULES = []


def _world_reset():
    import sys

    if LateV2 in _LOADED:
        _LOADED.remove(LateV2)
    for name in _DUMMY_MODULES:
        sys.modules.pop(name, None)
    del _DUMMY_MODULES[:]


def _import_late(env):
    """A module defining another class for the qualified name {urn:a}late is imported: the class becomes visible to every context
    and len(sys.modules) - the signal XmlContext.build_xsi_cache watches - changes."""
    import sys
    import types

    if LateV2 not in _LOADED:
        _LOADED.append(LateV2)
        name = "xsv_late_module_%d" % len(_DUMMY_MODULES)
        sys.modules[name] = types.ModuleType(name)
        _DUMMY_MODULES.append(name)
    return "imported"


def _late_doc(env, child, clazz=None):
    root = mutate.Node("{urn:a}late", {}, None, None, [mutate.Node("{urn:a}" + child, {}, "1")])
    return env.parsers["native"].parse(mutate.linearize(root), clazz)


def _enum_qname_doc(env, uri):
    """Enums document whose QName-valued enum element is written as t:a with the prefix t bound to `uri`."""
    root = mutate.Node("{urn:a}en", {}, None, None, [mutate.Node("{urn:a}c", {}, "red"), mutate.Node("{urn:a}q", {}, "t:a")], [("t", uri)])
    return env.parsers["native"].parse(mutate.linearize(root), Enums)


class Env:
    def __init__(self):
        seam.stub_loaded_classes(_LOADED)
        self.ctx = XmlContext()
        self.parsers = {h: NodeParser(config=ParserConfig(), context=self.ctx, handler=seam.SEAM_HANDLERS[h]) for h in ("native", "lxml")}
        self.lenient = NodeParser(config=ParserConfig(fail_on_unknown_properties=False), context=self.ctx, handler=seam.SEAM_HANDLERS["native"])
        self.enc = DictEncoder(context=self.ctx)
        self.dec = DictDecoder(context=self.ctx)


def _ser(env, obj, writer="native", ns_map=None):
    return seam.tree_of(seam.to_sax(obj, writer, None, ns_map, env.ctx))


_DOCS = {}


def _doc(name):
    """Concrete valid event tree built with FRESH instances (independent of every environment under test)."""
    if name not in _DOCS:
        cls, obj = mutate.DOCS[name]
        _DOCS[name] = (cls, mutate.tree_for(obj))
    cls, tree = _DOCS[name]
    return cls, mutate.linearize(tree.copy())


def _parse(env, name, handler="native", clazz="given"):
    cls, events = _doc(name)
    return env.parsers[handler].parse(events, cls if clazz == "given" else None)


def _bad_doc(env):
    cls, events = _doc("basic")
    tree = _DOCS["basic"][1].copy()
    tree.children.insert(0, mutate.Node("{urn:a}zzz", {}, "1"))
    return env.parsers["native"].parse(mutate.linearize(tree), cls)


def _wrong_root(env):
    tree = mutate.Node("{urn:q}nothing", {}, None)
    return env.parsers["lxml"].parse(mutate.linearize(tree), None)


def _qnames_doc(env, prefix_uri_pairs, handler="native"):
    """QNames document whose ROOT carries a QName-typed attribute, written with the given prefix bindings."""
    decl = dict(prefix_uri_pairs)
    inv = {u: p for p, u in decl.items()}
    root = mutate.Node("{urn:a}qn", {"qa": inv["urn:b"] + ":y"}, None, None, [mutate.Node("{urn:a}q", {}, inv["urn:a"] + ":x")], [(p, u) for p, u in decl.items()])
    return env.parsers[handler].parse(mutate.linearize(root), QNames)


def _wother_doc(env, child_qname, model=None):
    from harness.models import WOther

    root = mutate.Node("{urn:a}w", {}, None, None, [mutate.Node(child_qname, {}, "t")])
    return env.parsers["native"].parse(mutate.linearize(root), model or WOther)


def _foreign_xsi(env):
    """A document for UnionModels whose item carries an xsi:type naming a class of an unrelated family."""
    root = mutate.Node("um", {}, None, None, [mutate.Node("item", {"{%s}type" % seam.XSI: "p:derived"}, None, None, [mutate.Node("value", {}, "7")], [("p", "urn:a")])])
    return env.lenient.parse(mutate.linearize(root), UnionModels)


def _shape_doc(env, handler="native"):
    """xsi:type names a qualified name shared by two model classes (CircleV1 / CircleV2)."""
    cls, events = _doc("shapes")
    return env.parsers[handler].parse(events, cls)


def _union_xml(env):
    cls, events = _doc("unionmodels")
    return env.parsers["native"].parse(events, cls)


def _bad_int_lenient(env):
    """An unconvertible int value: kept as given with a warning (the parser is NOT configured to fail on warnings)."""
    _doc("basic")
    tree = _DOCS["basic"][1].copy()
    [n for n in mutate.nodes(tree) if n.qname == "{urn:a}i"][0].text = "n/a"
    return env.parsers["native"].parse(mutate.linearize(tree), Basic)


def _etree_source(env):
    """The REAL XmlEventHandler.parse on an xml.etree Element source (pure-Python iterwalk), through the env's reused parser."""
    from xml.etree import ElementTree as ET

    from xsdata.formats.dataclass.parsers.handlers import XmlEventHandler

    root = ET.Element("{urn:a}qn", {"qa": "y"})
    ET.SubElement(root, "{urn:a}q").text = "x"
    if "et" not in env.parsers:
        env.parsers["et"] = NodeParser(config=ParserConfig(), context=env.ctx, handler=XmlEventHandler)
    return env.parsers["et"].parse(root, QNames)


def _default_ns_doc(env):
    """A document that binds the DEFAULT namespace, parsed with the same reused real-handler parser as _etree_source."""
    from xml.etree import ElementTree as ET

    from xsdata.formats.dataclass.parsers.handlers import XmlEventHandler

    if "et" not in env.parsers:
        env.parsers["et"] = NodeParser(config=ParserConfig(), context=env.ctx, handler=XmlEventHandler)
    import io

    return env.parsers["et"].parse(io.BytesIO(b'<basic xmlns="urn:a" b="true"><i>5</i></basic>'), Basic)


OPS = [
    ("ser ParentA", lambda e: _ser(e, ParentA(item=Child(v=1, a="q"), items=[Child(v=2)], other=4))),
    ("ser ParentB", lambda e: _ser(e, ParentB(item=Child(v=9)), "lxml")),
    ("parse ParentA", lambda e: _parse(e, "parenta")),
    ("parse ParentB (lxml)", lambda e: e.parsers["lxml"].parse(mutate.linearize(mutate.tree_for(ParentB(item=Child(v=9)))), ParentB)),
    ("ser Child standalone", lambda e: _ser(e, Child(v=3, a="s"))),
    ("parse Holder by xsi:type, no target class", lambda e: _parse(e, "holder", "native", None)),
    ("parse Holder", lambda e: _parse(e, "holder", "lxml")),
    ("ser Holder with user prefix map", lambda e: _ser(e, Holder(b=Derived(x=1, y="q"), bs=[Sibling(x=3, z=True)]), "native", {"ns1": "urn:a", "xsi": "urn:zz"})),
    ("parse Wild (wildcard namespace memo)", lambda e: _parse(e, "wild")),
    ("lenient parse of Basic with unknown element", lambda e: e.lenient.parse(mutate.linearize(_with_unknown()), Basic)),
    ("FAIL strict parse of Basic with unknown element", _bad_doc),
    ("FAIL parse unknown root without target class", _wrong_root),
    ("encode+decode Lists", lambda e: e.dec.decode(e.enc.encode(Lists(ints=[1, 2], strs=["a"], toks=[3], atoks=["p"])), Lists)),
    ("FAIL decode Holder from a bad dictionary", lambda e: e.dec.decode({"b": {"x": "oops", "nope": 1}}, Holder)),
    ("parse QNames, prefixes t=urn:a u=urn:b", lambda e: _qnames_doc(e, [("t", "urn:a"), ("u", "urn:b")])),
    ("parse QNames, prefixes t=urn:b u=urn:a (lxml)", lambda e: _qnames_doc(e, [("t", "urn:b"), ("u", "urn:a")], "lxml")),
    ("parse ##other wildcard with {urn:c}item", lambda e: _wother_doc(e, "{urn:c}item")),
    ("FAIL parse ##other wildcard with {urn:a}item (own namespace)", lambda e: _wother_doc(e, "{urn:a}item")),
    ("parse UnionModels item with an xsi:type of an unrelated family", _foreign_xsi),
    ("parse ShapeHolder: xsi:type shared by two classes", _shape_doc),
    ("parse ShapeHolder again (lxml)", lambda e: _shape_doc(e, "lxml")),
    ("parse UnionModels (union of models)", _union_xml),
    ("lenient parse of Basic with an unconvertible int", _bad_int_lenient),
    ("real native handler: parse an ElementTree element with unprefixed QName content", _etree_source),
    ("real native handler: parse bytes that bind the default namespace", _default_ns_doc),
    ("parse <late><p/> without a target class (qualified name answered by one or two classes)", lambda e: _late_doc(e, "p")),
    ("parse <late><q/> without a target class", lambda e: _late_doc(e, "q")),
    ("ENVIRONMENT: a module defining a second class named {urn:a}late is imported", _import_late),
    ("parse Enums with q='t:a', t bound to urn:a (QName-valued enum member)", lambda e: _enum_qname_doc(e, "urn:a")),
    ("FAIL parse Enums with q='t:a', t bound to urn:b (no such member)", lambda e: _enum_qname_doc(e, "urn:b")),
    ("ser Compound ['warm'] (a str only the str choice takes)", lambda e: _ser(e, Compound(choice=["warm"]))),
    ("ser Compound ['7'] (a str that the int choice takes too)", lambda e: _ser(e, Compound(choice=["7"]))),
    ("decode Compound {'choice': ['0.5', 'x']}", lambda e: e.dec.decode({"choice": ["0.5", "x"]}, Compound)),
    ("parse ##any wildcard with {urn:a}item (a name another wildcard mode rejects)", lambda e: _wother_doc(e, "{urn:a}item", WAny)),
    ("FAIL parse ##targetNamespace wildcard with {urn:c}item (a name another wildcard mode accepts)", lambda e: _wother_doc(e, "{urn:c}item", WTarget)),
    ("decode {'q': 'x'} without a target class (lookup by field names; LateV2 once imported)", lambda e: e.dec.decode({"q": "x"}, None)),
]
# operations that build metadata of the namespace-less class Child under different inherited namespaces
# (35, the class-less decode, makes find_type_by_fields build EVERY loaded class stand-alone, Child included)
_CHILD_NS_GROUP = {0: "urn:a", 2: "urn:a", 1: "urn:b", 3: "urn:b", 4: None, 35: None}


def _with_unknown():
    _doc("basic")
    tree = _DOCS["basic"][1].copy()
    tree.children.append(mutate.Node("zzz", {}, None, None, [mutate.Node("{urn:a}i", {}, "9")]))
    return tree


def _outcome(fn, env):
    import warnings

    try:
        with warnings.catch_warnings():
            warnings.simplefilter("ignore")
            return ("ok", fn(env))
    except Exception as e:  # noqa: BLE001
        return ("exc", type(e).__name__)


def _same(a, b):
    return a[0] == b[0] and a[1] == b[1]


def _excluded(ops):
    """Signature of the known finding: the same namespace-less class built under two different inherited namespaces."""
    if not _KNOWN_CACHE:
        return False
    seen = set()
    for o in ops:
        if o in _CHILD_NS_GROUP:
            seen.add(_CHILD_NS_GROUP[o])
    return len(seen) > 1


# quick tier: the third operation of a length-3 history is one of the operations that OBSERVE shared state most directly
QUICK_THIRDS = [1, 5, 8, 11, 14, 16, 19, 25, 26, 28, 29, 31, 32, 33, 34, 35]


def _third_ok(o2):
    allowed = PART.get("_thirds")
    if allowed is None or o2 < 0:
        return True
    return any([o2 == x for x in allowed])


def history(o0: int, o1: int, o2: int) -> bool:
    """
    pre: o0 == PART.get("first", 0)
    pre: 0 <= o1 < len(OPS)
    pre: -1 <= o2 < len(OPS)
    pre: o2 < PART.get("third", 0)
    pre: _third_ok(o2)
    post: _
    """
    ops = [concretize(o0, len(OPS)), concretize(o1, len(OPS))]
    k2 = concretize(o2, len(OPS) + 1, -1)
    if k2 >= 0:
        ops.append(k2)
    if "second" in PART:  # thorough tier: histories of length 4 = fixed first and second operation + two symbolic ones
        ops = [PART["first"], PART["second"]] + ops[1:]
    return _history(ops)


_IMPORT_OP = [n for n, (label, _f) in enumerate(OPS) if label.startswith("ENVIRONMENT")][0]
_PRISTINE = {}


def _pristine(o):
    """Outcome of operation o run ALONE in a pristine interpreter (computed once per check run by plan(), one subprocess per operation):
    the reference that process-wide state (module-level memo tables, the converter registry) cannot have touched."""
    import os
    import pickle

    path = PART.get("_solo")
    if not path:
        return None
    if o not in _PRISTINE:
        f = os.path.join(path, "%d.pickle" % o)
        _PRISTINE[o] = pickle.load(open(f, "rb")) if os.path.exists(f) else None
    return _PRISTINE[o]


def _dump_solo(o, path):
    import os
    import pickle

    _world_reset()
    out = _outcome(OPS[o][1], Env())
    with open(os.path.join(path, "%d.pickle" % o), "wb") as f:
        pickle.dump(out, f)


def _history(ops):
    if _excluded(ops):
        return True
    with untraced():  # the history is concrete on this path: no symbolic value flows below
        return result(_isolated(ops))


def _isolated(ops):
    """The history runs in a forked child: whatever process-wide state xsdata keeps (module-level memo tables, the converter registry)
    is left untouched in this process, so every history starts from the state of a freshly imported library and a counterexample replays."""
    import os

    r, w = os.pipe()
    pid = os.fork()
    if pid == 0:
        code = b"E"
        try:
            os.close(r)
            code = b"1" if _run_history(ops) else b"0"
        except BaseException:  # noqa: BLE001
            code = b"E"
        finally:
            try:
                os.write(w, code)
            finally:
                os._exit(0)
    os.close(w)
    data = os.read(r, 1)
    os.close(r)
    os.waitpid(pid, 0)
    if data == b"E" or not data:
        raise RuntimeError("history child failed")
    return data == b"1"


def _run_history(ops):
    _world_reset()
    shared = Env()
    ok = True
    world_changed = False
    for o in ops:
        got = _outcome(OPS[o][1], shared)
        want = _outcome(OPS[o][1], Env())
        ok = ok and _same(got, want)
        world_changed = world_changed or o == _IMPORT_OP
        alone = None if world_changed else _pristine(o)
        if alone is not None:
            ok = ok and _same(got, alone)
    return ok


def cache_witness():
    """Known finding C14-cache-parent-namespace through the public text API."""
    from xsdata.formats.dataclass.parsers import XmlParser
    from xsdata.formats.dataclass.serializers import XmlSerializer

    ctx = XmlContext()
    XmlSerializer(context=ctx).render(ParentA(item=Child(v=1)))
    shared = XmlSerializer(context=ctx).render(ParentB(item=Child(v=9)))
    fresh = XmlSerializer().render(ParentB(item=Child(v=9)))
    try:
        same_parse = XmlParser(context=ctx).from_string(fresh, ParentB) == XmlParser().from_string(fresh, ParentB)
    except Exception:  # noqa: BLE001
        same_parse = False
    return shared == fresh and same_parse


PRE = {}
EXPLAIN = {"history": lambda o0, o1, o2: [OPS[o][0] for o in ([o0, o1] + ([o2] if o2 >= 0 else []))]}


def _solo_dir():
    """One pristine subprocess per operation (16 at a time); the directory lives as long as the runner process."""
    import atexit
    import os
    import shutil
    import subprocess
    import sys
    import tempfile
    from concurrent.futures import ThreadPoolExecutor

    path = tempfile.mkdtemp(prefix="xsv_c14_")
    atexit.register(shutil.rmtree, path, True)
    env = dict(os.environ, XSV_PART="{}", XSV_TWIN="0", PYTHONHASHSEED="0")
    code = "import sys; sys.path[:0] = [%r, %r]; from harness import c14; c14._dump_solo(int(sys.argv[1]), sys.argv[2])" % (
        os.environ.get("XSDATA_SRC", "/repo"), os.path.dirname(os.path.dirname(os.path.abspath(__file__))))

    def one(o):
        subprocess.run([sys.executable, "-c", code, str(o), path], env=env, capture_output=True, timeout=300)

    with ThreadPoolExecutor(16) as ex:
        list(ex.map(one, range(len(OPS))))
    return path


def plan(tier):
    jobs = []
    solo = _solo_dir()
    for first in range(len(OPS)):
        jobs.append(Job("history", {"first": first, "third": 0, "_solo": solo}, 240, 60, note="selector driven, length 2"))
        part = {"first": first, "third": len(OPS), "_solo": solo}
        if tier == "quick":
            part["_thirds"] = QUICK_THIRDS
        jobs.append(Job("history", part, 600, 60, note="selector driven, length 2 and 3"))
        if tier != "quick":
            for second in range(len(OPS)):
                if _excluded([first, second]):
                    continue  # the whole partition is the excluded signature of the listed known finding (would be vacuous)
                jobs.append(Job("history", {"first": first, "second": second, "third": len(OPS), "_solo": solo}, 900, 60, note="selector driven, length 4"))
    return jobs
