"""C15 - bad input fails cleanly (DESIGN.md §5 C15): single-point faults on valid event streams / dictionaries."""

from __future__ import annotations

from harness import c01, mutate, seam
from harness.common import PART, result, small_alphabet
from vlib.jobs import Job

from xsdata.exceptions import ConverterError, ParserError, XmlContextError
from xsdata.formats.dataclass.context import XmlContext
from xsdata.formats.dataclass.parsers.bases import NodeParser
from xsdata.formats.dataclass.parsers.config import ParserConfig
from xsdata.formats.dataclass.parsers.dict import DictDecoder
from xsdata.formats.dataclass.serializers.dict import DictEncoder

META = {
    "functions": [
        "xsdata.formats.dataclass.parsers.bases:NodeParser.parse", "xsdata.formats.dataclass.parsers.bases:NodeParser.start", "xsdata.formats.dataclass.parsers.bases:NodeParser.end",
        "xsdata.formats.dataclass.parsers.nodes.element:ElementNode.bind", "xsdata.formats.dataclass.parsers.nodes.element:ElementNode.child",
        "xsdata.formats.dataclass.parsers.nodes.element:ElementNode.build_node", "xsdata.formats.dataclass.parsers.nodes.element:ElementNode.bind_attrs",
        "xsdata.formats.dataclass.parsers.nodes.primitive:PrimitiveNode.bind", "xsdata.formats.dataclass.parsers.nodes.primitive:PrimitiveNode.child",
        "xsdata.formats.dataclass.parsers.nodes.standard:StandardNode.bind", "xsdata.formats.dataclass.parsers.nodes.standard:StandardNode.child",
        "xsdata.formats.dataclass.parsers.nodes.union:UnionNode.bind", "xsdata.formats.dataclass.parsers.nodes.wrapper:WrapperNode.bind",
        "xsdata.formats.dataclass.parsers.utils:ParserUtils.xsi_type", "xsdata.formats.dataclass.parsers.utils:ParserUtils.xsi_nil",
        "xsdata.formats.dataclass.parsers.utils:ParserUtils.parse_var", "xsdata.formats.dataclass.parsers.utils:ParserUtils.parse_value",
        "xsdata.formats.dataclass.parsers.dict:DictDecoder.decode", "xsdata.formats.dataclass.parsers.dict:DictDecoder.bind_dataclass",
        "xsdata.formats.dataclass.parsers.dict:DictDecoder.bind_value", "xsdata.formats.dataclass.parsers.dict:DictDecoder.bind_complex_type",
        "xsdata.formats.dataclass.parsers.handlers.native:XmlEventHandler.process_context", "xsdata.formats.dataclass.parsers.handlers.lxml:LxmlEventHandler.process_context",
    ],
    "bounds": [
        "valid documents: harness/mutate.py DOCS (18 pool instances) serialised concretely through the seam",
        "fault kinds: delete / duplicate / retag / swap-with-sibling / inject child / corrupt text / corrupt attribute / delete attribute / unknown attribute / bad xsi:type / bad xsi:nil / bad QName text / SyntaxError from the handler; "
        "target node and replacement name are selectors over the whole stream, corrupt values are symbolic strings of <= 1 (quick) / 2 (thorough) code points over ASCII + U+00E9, U+0663, U+2000",
        "text level, through the real lxml / expat front ends (harness/textpath.py): truncation at EVERY byte offset of a pool document, every byte replaced by each of 8 bytes (< & NUL 0xFF \" > x space), 9 kinds of junk after the root "
        "element; both handlers: instance or documented error, and the native handler must not return an instance when expat, driven directly, calls the bytes not well-formed",
        "JSON text: truncation at every byte offset and each of 10 byte values at every offset of the pool documents' JSON text through JsonParser.from_bytes",
        "dictionaries: drop / rename / duplicate-as-list / scalar<->list<->object swaps / wrong nesting on every key path (selectors), symbolic scalar replacement",
    ],
    "outside": ["random byte strings; multi-point faults; the text-level drivers execute the C parsers (nothing about them is modelled, the solver enumerates offsets)",
                "termination is implied by path exhaustion under the per-path timeout only"],
    "stubs": ["SAX seam", "CrossHair model pack", "XmlContext.get_subclasses(object) iterates the model pool"],
    "assumptions": [],
}

ALLOWED = (ParserError, ConverterError, XmlContextError)
XSI = seam.XSI
NAMES = ["zzz", "{urn:zz}q", "{urn:a}i", "{urn:a}v", "v", "{urn:a}item", "s", "{urn:b}other", "n", "alpha", "{urn:a}base"]
XSI_TYPES = ["zz:t", "xs:nope", "{urn:a}nope", "xs:int", ":", "", "ns0:derived", "xs:", "{urn:a}sibling", "{http://www.w3.org/2001/XMLSchema}string", "a:b:c",
             "xs:hexBinary", "xs:base64Binary", "xs:QName", "xs:dateTime", "xs:boolean", "xs:duration"]
XS = "http://www.w3.org/2001/XMLSchema"

_DOC = PART.get("doc", "basic")
_CLS, _OBJ = mutate.DOCS[_DOC]
_BASE = None
_CTX = None


def _base():
    global _BASE, _CTX
    if _BASE is None:
        import contextlib

        try:
            from crosshair.tracers import NoTracing, is_tracing

            guard = NoTracing() if is_tracing() else contextlib.nullcontext()
        except Exception:  # noqa: BLE001
            guard = contextlib.nullcontext()
        with guard:
            _CTX = c01._context(_CLS)
            _BASE = mutate.tree_for(_OBJ, "native", None, None, _CTX)
    return _BASE


NN = len(mutate.nodes(mutate.tree_for(_OBJ)))  # number of nodes of the valid document (concrete, at import)
KIND = PART.get("kind", "delete")
TLEN = PART.get("tlen", 1)
RMAX = len(XSI_TYPES) if KIND == "xsitype" else len(NAMES)
_USES_TXT = ("inject", "text", "attr", "addattr", "xsinil", "qname")
_NEEDS_PARENT = ("delete", "duplicate", "swap")


def _parent_of(root, target):
    for n in mutate.nodes(root):
        for idx, c in enumerate(n.children):
            if c is target:
                return n, idx
    return None, -1


def _apply(root, kind, e, r, txt):
    """Apply one fault; returns False when the fault is not applicable at this position (path is then outside the domain)."""
    ns = mutate.nodes(root)
    node = ns[e]
    parent, idx = _parent_of(root, node)
    if kind == "delete":
        if parent is None:
            return False
        del parent.children[idx]
    elif kind == "duplicate":
        if parent is None:
            return False
        parent.children.insert(idx, node.copy())
    elif kind == "retag":
        if node.qname == NAMES[r]:
            return False
        node.qname = NAMES[r]
    elif kind == "swap":
        if parent is None or idx + 1 >= len(parent.children):
            return False
        parent.children[idx], parent.children[idx + 1] = parent.children[idx + 1], parent.children[idx]
    elif kind == "inject":
        node.children.insert(0, mutate.Node(NAMES[r], {}, txt))
    elif kind == "text":
        node.text = txt
    elif kind == "attr":
        keys = list(node.attrs)
        if not keys:
            return False
        node.attrs[keys[r % len(keys)]] = txt
    elif kind == "delattr":
        keys = list(node.attrs)
        if not keys:
            return False
        del node.attrs[keys[r % len(keys)]]
    elif kind == "addattr":
        node.attrs[NAMES[r]] = txt
    elif kind == "xsitype":
        node.attrs["{%s}type" % XSI] = XSI_TYPES[r]
        if not any(p == "xs" for p, _ in root.ns):
            root.ns = list(root.ns) + [("xs", XS)]  # the xs prefix is declared, so builtin type names resolve
    elif kind == "xsinil":
        node.attrs["{%s}nil" % XSI] = txt
    elif kind == "qname":
        if node.children:
            return False
        node.text = "zz:" + txt
    else:
        raise AssertionError(kind)
    return True


def fault(e: int, r: int, txt: str) -> bool:
    """
    pre: 0 <= e < NN
    pre: 0 <= r < RMAX
    pre: len(txt) <= TLEN
    pre: small_alphabet(txt)
    post: _
    """
    root = _base().copy()
    if not _apply(root, KIND, e, r, txt):
        return True
    handler = PART.get("handler", "native")
    cfg = ParserConfig(fail_on_unknown_properties=bool(PART.get("strict", 1)), fail_on_converter_warnings=bool(PART.get("fcw", 0)))
    import warnings

    try:
        with warnings.catch_warnings():
            warnings.simplefilter("ignore")
            obj = seam.parse_context(mutate.linearize(root), _CLS, handler, cfg, _CTX)
    except ALLOWED:
        return result(True)
    return result(isinstance(obj, _CLS))


class _Boom(seam.SeamNativeHandler):
    def parse(self, source, ns_map):
        raise SyntaxError("not well-formed (invalid token): line 1, column 0")


def syntax_error(k: int) -> bool:
    """
    pre: 0 <= k < 2
    post: _
    """
    parser = NodeParser(context=XmlContext(), handler=_Boom)
    try:
        parser.parse([], _CLS if k else None)
    except ParserError:
        return result(True)
    return result(False)


# ------------------------------------------------------------------ dictionaries
_PATHS = None


def _dict_base():
    return DictEncoder(context=c01._context(_CLS)).encode(_OBJ)


def _paths(d, prefix=()):
    out = []
    if isinstance(d, dict):
        for k, v in d.items():
            out.append(prefix + (k,))
            out.extend(_paths(v, prefix + (k,)))
    elif isinstance(d, list):
        for i, v in enumerate(d):
            out.extend(_paths(v, prefix + (i,)))
    return out


NP = len(_paths(DictEncoder().encode(_OBJ)))
DKINDS = ["drop", "rename", "tolist", "toscalar", "toobject", "nest", "null", "value", "unwrap", "topscalar", "topnull", "toplist", "derive", "deriveitem", "derivebad"]
# element names of the document (compound choice names included): qnames for derived-element shaped objects {"qname", "type", "value"}
_QN_POOL = []
for _n in mutate.nodes(mutate.tree_for(_OBJ))[1:]:
    _ln = _n.qname.split("}")[-1]
    if _ln not in _QN_POOL:
        _QN_POOL.append(_ln)
_QN_POOL = (_QN_POOL + ["nope"])[:5] if _QN_POOL else ["nope"]


def _get(d, path):
    for p in path[:-1]:
        d = d[p]
    return d, path[-1]


def dict_fault(p: int, k: int, txt: str, n: int) -> bool:
    """
    pre: 0 <= p < NP
    pre: 0 <= k < len(DKINDS)
    pre: len(txt) <= TLEN
    pre: small_alphabet(txt)
    pre: -3 < n < 3
    post: _
    """
    import copy
    import warnings

    data = copy.deepcopy(_dict_base())
    path = _paths(data)[p]
    holder, key = _get(data, path)
    kind = DKINDS[k]
    if kind == "drop":
        del holder[key]
    elif kind == "rename":
        holder["zz" + str(key)] = holder.pop(key)
    elif kind == "tolist":
        holder[key] = [holder[key], holder[key]]
    elif kind == "toscalar":
        holder[key] = n
    elif kind == "toobject":
        holder[key] = {"z": n}
    elif kind == "nest":
        holder[key] = {key: holder[key]}
    elif kind == "null":
        holder[key] = None
    elif kind == "unwrap":
        inner = holder[key]
        if not isinstance(inner, dict) or not isinstance(key, str):
            return True
        del holder[key]
        holder.update(inner)  # the children of an object hoisted into its parent
    elif kind == "derive":
        # the value written the way xsdata writes a derived element: an object with qname / type / value
        holder[key] = {"qname": key if isinstance(key, str) else _QN_POOL[0], "type": None, "value": holder[key]}
    elif kind in ("deriveitem", "derivebad"):
        if not isinstance(holder[key], list) or not holder[key]:
            return True
        qn = _QN_POOL[(n + 2) % len(_QN_POOL)]
        holder[key][0] = {"qname": qn, "type": None, "value": txt if kind == "derivebad" else holder[key][0]}
    elif kind == "topscalar":
        data = n
    elif kind == "topnull":
        data = None
    elif kind == "toplist":
        data = [data, txt]
    else:
        holder[key] = txt
    cfg = ParserConfig(fail_on_unknown_properties=bool(PART.get("strict", 1)), fail_on_converter_warnings=bool(PART.get("fcw", 0)))
    try:
        with warnings.catch_warnings():
            warnings.simplefilter("ignore")
            obj = DictDecoder(config=cfg, context=c01._context(_CLS)).decode(data, _CLS)
    except ALLOWED:
        return result(True)
    return result(isinstance(obj, _CLS))


def explain_fault(e, r, txt):
    root = mutate.tree_for(_OBJ).copy()
    ok = _apply(root, KIND, e, r, txt)
    return {"doc": _DOC, "kind": KIND, "applied": ok, "node": mutate.nodes(mutate.tree_for(_OBJ))[e].qname, "name": NAMES[r], "xsi_type": XSI_TYPES[r], "value": txt}


# ---------------------------------------------------------------------------------------------------------------------
# text-level faults through the REAL front ends (harness/textpath.py): truncation at every offset, byte flips at every
# offset, junk after the root element.  Oracle for "not well-formed": expat driven directly.
from harness import textpath  # noqa: E402
from harness.common import concretize, concretize_bs, known, untraced  # noqa: E402

_TFKIND = PART.get("tkind", "truncate")
_KNOWN_LXML_TRUNC = known("C15-lxml-truncated-start-tag-typeerror")
_TFN = {}


def _tf_n():
    if _DOC not in _TFN:
        with untraced():
            _TFN[_DOC] = len(textpath.doc_text(_DOC)[1].encode())
    return _TFN[_DOC]


def _innermost(e):
    tb = e.__traceback__
    name = None
    while tb is not None:
        name = tb.tb_frame.f_code.co_name
        tb = tb.tb_next
    return name


def _text_fault(doc, kind, k, j):
    import warnings

    cls, _text = textpath.doc_text(doc)
    data = textpath.fault(doc, kind, k, j)
    wf = textpath.well_formed(data)
    out = {"ok": True, "bytes": repr(data[-80:] if kind == "junk" else data[max(0, k - 30) : k + 30]), "well_formed_by_expat": wf}
    for h in ("lxml", "native"):
        try:
            with warnings.catch_warnings():
                warnings.simplefilter("ignore")
                res = textpath.parse(data, cls, h)
            good = isinstance(res[1], cls) and (wf or h != "native")  # the pure-Python handler rejects every document that is not well-formed
            what = "returned " + repr(res[1])[:200]
        except ALLOWED as e:
            good, what = True, "raised " + type(e).__name__
        except Exception as e:  # noqa: BLE001
            good, what = False, "leaked %s: %s" % (type(e).__name__, str(e)[:120])
            if _KNOWN_LXML_TRUNC and h == "lxml" and isinstance(e, TypeError) and _innermost(e) == "split_qname":
                good, what = True, what + " [listed known finding: call site split_qname(None) under the lxml handler]"
        out[h] = what
        out["ok"] = out["ok"] and good
    return out


def text_fault(k: int, j: int) -> bool:
    """
    pre: 0 <= k < (_tf_n() if _TFKIND != "junk" else 1)
    pre: 0 <= j < (1 if _TFKIND == "truncate" else len(textpath.FLIPS) if _TFKIND == "flip" else len(textpath.JUNK))
    post: _
    """
    ck = concretize_bs(k, _tf_n() if _TFKIND != "junk" else 1)
    cj = concretize(j, 1 if _TFKIND == "truncate" else len(textpath.FLIPS) if _TFKIND == "flip" else len(textpath.JUNK))
    with untraced():
        return result(_text_fault(_DOC, _TFKIND, ck, cj)["ok"])


JFLIPS = [0x3C, 0x22, 0x00, 0xFF, 0x2C, 0x7D, 0x5B, 0x31, 0x6E, 0x5C]
_JTEXT = {}


def _json_text(doc):
    if doc not in _JTEXT:
        from xsdata.formats.dataclass.context import XmlContext
        from xsdata.formats.dataclass.serializers import JsonSerializer

        cls, obj = mutate.DOCS[doc]
        _JTEXT[doc] = (cls, JsonSerializer(context=XmlContext()).render(obj).encode())
    return _JTEXT[doc]


def _jt_n():
    with untraced():
        return len(_json_text(_DOC)[1])


def _json_text_fault(doc, kind, k, j):
    """JSON TEXT with one fault (truncation at offset k | byte k replaced by JFLIPS[j]) through the real JsonParser.from_bytes."""
    import warnings

    from xsdata.formats.dataclass.context import XmlContext
    from xsdata.formats.dataclass.parsers import JsonParser

    cls, data = _json_text(doc)
    bad = data[:k] if kind == "truncate" else data[:k] + bytes([JFLIPS[j]]) + data[k + 1 :]
    try:
        with warnings.catch_warnings():
            warnings.simplefilter("ignore")
            res = JsonParser(context=XmlContext()).from_bytes(bad, cls)
        return {"ok": isinstance(res, cls), "bytes": repr(bad[max(0, k - 30) : k + 30]), "outcome": "returned " + repr(res)[:200]}
    except ALLOWED as e:
        return {"ok": True, "outcome": "raised " + type(e).__name__}
    except Exception as e:  # noqa: BLE001
        return {"ok": False, "bytes": repr(bad[max(0, k - 30) : k + 30]), "outcome": "leaked %s: %s" % (type(e).__name__, str(e)[:120])}


def json_text_fault(k: int, j: int) -> bool:
    """
    pre: 0 <= k < _jt_n()
    pre: 0 <= j < (1 if _TFKIND == "truncate" else len(JFLIPS))
    post: _
    """
    ck = concretize_bs(k, _jt_n())
    cj = concretize(j, 1 if _TFKIND == "truncate" else len(JFLIPS))
    with untraced():
        return result(_json_text_fault(_DOC, _TFKIND, ck, cj)["ok"])


PRE = {}
EXPLAIN = {"fault": explain_fault, "json_text_fault": lambda k, j: _json_text_fault(_DOC, _TFKIND, k, j), "text_fault": lambda k, j: _text_fault(_DOC, _TFKIND, k, j)}
KINDS = ["delete", "duplicate", "retag", "swap", "inject", "text", "attr", "delattr", "addattr", "xsitype", "xsinil", "qname"]


def plan(tier):
    jobs = []
    quick = tier == "quick"
    docs = ["basic", "parenta", "holder", "nillable", "compound", "reqtext", "enums", "wrapped", "unions", "wildknown", "wild", "anytyped", "wlderived"] if quick else list(mutate.DOCS)
    tlen = 1 if quick else 2
    for d_i, doc in enumerate(docs):
        tree = mutate.tree_for(mutate.DOCS[doc][1])
        n_nodes = len(mutate.nodes(tree))
        has_attrs = any(n.attrs for n in mutate.nodes(tree))
        for k_i, kind in enumerate(KINDS):
            if quick and (d_i + k_i) % 3 and doc not in ("basic", "holder") and not (doc in ("wildknown", "wild") and kind in ("duplicate", "retag", "inject")) and not (doc == "anytyped" and kind in ("xsitype", "text")) and not (doc == "wrapped" and kind in ("inject", "duplicate", "retag", "swap")):
                continue
            if doc == "temporal":
                continue  # the date / time parsers run regular expressions on the corrupted (symbolic) values, which CrossHair cannot follow; text_fault covers the document
            if (doc, kind) in (("shapes", "swap"),):
                continue  # no element of this document has a sibling (would be a vacuous harness)
            if (kind in _NEEDS_PARENT and n_nodes < 3) or (kind in ("attr", "delattr") and not has_attrs):
                continue  # fault kind not applicable to this document (would be a vacuous harness)
            lenient = ((d_i + k_i) // 2) % 4 == 3  # independent of the handler rotation: both handlers meet the lenient mode
            jobs.append(Job("fault", {"doc": doc, "kind": kind, "handler": ("native", "lxml")[(d_i + k_i) % 2], "strict": int(not lenient), "fcw": (k_i // 2) % 2, "tlen": tlen}, 240, 30))
            if not quick:
                jobs.append(Job("fault", {"doc": doc, "kind": kind, "handler": ("lxml", "native")[(d_i + k_i) % 2], "strict": int(lenient), "fcw": 1 - (k_i // 2) % 2, "tlen": tlen}, 240, 30))
    if quick:
        for doc in ("parenta", "holder"):  # skipped subtrees (SkipNode) under both handlers
            for kind in ("retag", "inject", "duplicate"):
                for handler in ("native", "lxml"):
                    jobs.append(Job("fault", {"doc": doc, "kind": kind, "handler": handler, "strict": 0, "fcw": 0, "tlen": tlen}, 240, 30))
    jobs.append(Job("syntax_error", {"doc": "basic"}, 60, 10))
    for doc in (["basic", "holder", "qnames", "mixed", "wild", "anytyped"] if quick else sorted(mutate.DOCS)):
        for tkind in ("truncate", "junk", "flip"):
            jobs.append(Job("text_fault", {"doc": doc, "tkind": tkind}, 600, 30, note="real lxml / expat front ends; offset symbolic"))
    for doc in (["basic", "holder", "compound", "wild"] if quick else sorted(mutate.DOCS)):
        for tkind in ("truncate", "flip"):
            jobs.append(Job("json_text_fault", {"doc": doc, "tkind": tkind}, 600, 30, note="real json front end; offset symbolic"))
    for d_i, doc in enumerate(["basic", "parenta", "holder", "lists", "compound", "wrapped", "nillable", "enums", "unionmodels", "wild", "wlderived"] if quick else list(mutate.DOCS)):
        jobs.append(Job("dict_fault", {"doc": doc, "strict": 1, "fcw": d_i % 2, "tlen": tlen}, 240, 30))
        if not quick or d_i % 2 == 0:
            jobs.append(Job("dict_fault", {"doc": doc, "strict": 0, "fcw": (d_i + 1) % 2, "tlen": tlen}, 240, 30))
    seen, uniq = set(), []
    for j in jobs:
        if j.key not in seen:
            seen.add(j.key)
            uniq.append(j)
    return uniq


def lxml_truncated_witness():
    """Known finding C15-lxml-truncated-start-tag-typeerror through the public API."""
    from harness.models import WildList
    from xsdata.formats.dataclass.parsers import XmlParser
    from xsdata.formats.dataclass.parsers.handlers import LxmlEventHandler

    data = b'<wl><ns0:d xmlns:ns0="urn:c" xmlns:xsi="http://www.w3.org/2001/XMLSchema-instance" v="3" xsi:type="alpha"/'
    try:
        XmlParser(handler=LxmlEventHandler).from_bytes(data, WildList)
    except ALLOWED:
        return True
    except Exception:  # noqa: BLE001
        return False
    return True
