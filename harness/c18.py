"""C18 - Python-code rendering evaluates back to the object (DESIGN.md §5 C18).  Selectors only: the rendered source is
concrete on every path (compile() is a C boundary), so this is solver-driven bounded-exhaustive enumeration of a finite pool."""

from __future__ import annotations

import math
from decimal import Decimal
from xml.etree.ElementTree import QName

from harness.common import PART, concretize, known, result, untraced
from harness.models import *  # noqa: F401,F403
from harness.models import Bag, Deep, Outer
from vlib.jobs import Job

from xsdata.formats.dataclass.serializers.code import PycodeSerializer

META = {
    "functions": [
        "xsdata.formats.dataclass.serializers.code:PycodeSerializer.render", "xsdata.formats.dataclass.serializers.code:PycodeSerializer.write",
        "xsdata.formats.dataclass.serializers.code:PycodeSerializer.build_imports", "xsdata.formats.dataclass.serializers.code:PycodeSerializer.repr_object",
        "xsdata.formats.dataclass.serializers.code:PycodeSerializer.repr_array", "xsdata.formats.dataclass.serializers.code:PycodeSerializer.repr_mapping",
        "xsdata.formats.dataclass.serializers.code:PycodeSerializer.repr_model", "xsdata.utils.objects:literal_value",
    ],
    "bounds": ["a finite pool of instances (harness/c18.py POOL) x variable names; each pool index is a symbolic selector, every index is executed (exhaustive over the pool)",
               "value kinds: non-finite floats, -0.0, Decimals, QNames with/without namespace and with quote characters, bytes, date/time/duration/period, empty and nested collections, tuples, sets, attribute maps, strings with quotes/backslashes/newlines/non-ASCII, nested and inner classes, enums incl. an enum nested in a class, generics"],
    "outside": ["instances outside the pool", "compile()/exec() themselves (C)"],
    "stubs": [],
    "assumptions": ["harness.models is importable by the rendered source (sys.path contains /verif)"],
}

NAN = float("nan")
POOL = [
    Basic(i=5, s="x", b=True, num=-3), Basic(i=0), TextStr(value="it's \"quoted\" \\ back\nslash\t\x00é\U0001f600", a=1),
    Frozen(x=1, items=(1, 2), toks=("a", "b")), Frozen(x=1, items=(1,), toks=()), Frozen(x=0),
    Lists(ints=[1, 2], strs=["a", ""], toks=[], atoks=["p"]), TokenLists(rows=[[1, 2], [], [3]]),
    Nillable(i=None, s="", many=[1, None]), NilParent(c=NilChild(v=None), after=2),
    ParentA(item=Child(v=1, a="q"), items=[Child(v=2), Child()], other=4, local=5),
    Unions(u="abc", ub=True, us=[1, "x", 2]), Unions(u=12, ub=3),
    Enums(c=Color.GREEN, n=Num.TWO, cs=[Color.RED, Color.GREEN], q=QEnum.A), Enums(q=QEnum.B),
    QNames(q=QName(NS_B, "x"), qa=QName("y"), qs=[QName("z"), QName(NS_B, "w")]), QNames(q=QName('we"ird')), QNames(q=QName("back\\slash")),
    Compound(choice=[1, "s", Alpha(v=2), [True, False], 3]), CompoundSingle(one=Alpha(v=1)),
    Holder(b=Derived(x=1, y="q"), bs=[Base(x=2), Sibling(x=3, z=True)]),
    Wild(known=1, any=AnyElement(qname="{urn:c}foo", text="t", attributes={"k": "v"}, children=[AnyElement(qname="bar", text="u", tail="w")]), attrs={"{urn:d}e": "f", "g": "h"}),
    WildList(items=[AnyElement(qname="{urn:c}a", text="1"), DerivedElement(qname="d", value=Alpha(v=3), type="{urn:a}alpha"), 5, "s"]),
    Mixed(content=["hello ", AnyElement(qname="b", text="bold", tail=" world")]),
    AnyTyped(v=5), AnyTyped(v=Alpha(v=3)), AnyTyped(v=DerivedElement(qname="x", value=1.5)),
    Defaults(a=5, req=1, e="dflt"), Defaults(a=6, req=2, e=None),
    Temporal(d=XmlDate(2021, 2, 3), t=XmlTime(1, 2, 3, 4000000, 60), dt=XmlDateTime(2021, 2, 3, 4, 5, 6), du=XmlDuration("P1Y"), p=XmlPeriod("--02"), dec=Decimal("1.50"), f=1e22),
    Temporal(d=XmlDate(-45, 12, 31, -300), dt=XmlDateTime(1, 1, 1, 0, 0, 0, 1, 0), dec=Decimal("1E+2"), f=-0.0),
    Temporal(f=NAN), Temporal(f=float("inf")), Temporal(f=float("-inf"), dec=Decimal("Infinity")), Temporal(dec=Decimal("NaN")), Temporal(f=5e-324),
    Formats(h=b"\x01\xff", b=b"abc'\"", hs=[b"\x00", b""]),
    Outer(inner=Outer.Inner(v=1, words=("a", "b")), inners=[Outer.Inner(), Outer.Inner(v=2)], shade=Outer.Shade.DARK, shades=[Outer.Shade.LIGHT], color=Color.GREEN),
    Outer(shade=Outer.Shade.LIGHT), Outer(inner=Outer.Inner(words=("x",))),
    Bag(v=(1, 2)), Bag(v=(1,)), Bag(v=()), Bag(v=[[1, [2, (3, 4)]], {}]), Bag(v={"a": [1], "b": {"c": (NAN, None)}}), Bag(v={1, 2}), Bag(fz=frozenset({1})),
    Bag(vs=[None, True, 1, 1.5, "s", b"b", Decimal("1"), QName("q"), Color.RED, Outer.Shade.DARK, XmlDate(1, 1, 1)]), Bag(m={"k": "v", "we\"ird": 1, "": None}),
    QNames(q=QName("c:\\temp\\new"), qa=QName("a\\x41b"), qs=[QName("{urn:a}t\\u0041"), QName("dbl\\\\slash")]),
    Deep(mid=Deep.Mid(leaf=Deep.Mid.Leaf(n=1), kind=Deep.Mid.Kind.B)), Deep(mid=Deep.Mid(kind=Deep.Mid.Kind.A), level=Deep.Level.HIGH),
    Deep(langs=[], pair=(), opts={}, level=None, text=None), Deep(langs=["en", "de"], pair=(1, 2)), Deep(langs=["fr"], pair=(3,), opts={"x": "y"}, text=""),
    Bag(v=Deep.Mid.Leaf(n=2)), Bag(vs=[Deep.Mid.Kind.A, Deep.Level.LOW]),
    Bag(v=float("inf")), Bag(v=Num.ONE), Bag(v=XmlDuration("PT1.5S")), Bag(v=XmlPeriod("2021Z")), Bag(v=set()),
    # mapping KEYS of types that occur nowhere else in the object (their imports hang on the key alone)
    Bag(m={QName("{urn:a}k"): "v"}), Bag(m={Decimal("1.5"): "d"}), Bag(m={XmlDate(2020, 1, 2): 1}), Bag(m={Color.RED: 1}), Bag(m={Outer.Shade.DARK: 0}), Bag(m={(1, "a"): 2}),
    Bag(m={b"k": 1}), Bag(m={1.5: 1, None: 2, True: 3}), Bag(m={XmlDuration("P1D"): XmlTime(1, 2, 3)}), Bag(m={Deep.Mid.Kind.A: Deep.Level.LOW}),
    # REQUIRED fields (no default) holding None / a falsy value
    DerivedElement(qname="a", value=None), WildList(items=[DerivedElement(qname="d", value=None)]), AnyTyped(v=DerivedElement(qname="x", value=None, type=None)),
    Basic(i=None), ReqText(value=None, a=1), ReqText(value="", a=0), DerivedElement(qname="", value=0), AnyElement(),
]
VARS = ["obj", "v", "_x1"]

_KNOWN = {}


def _eq(a, b):
    """Equality that treats NaN as equal to NaN and distinguishes tuple/list/set and the class of values."""
    import dataclasses

    if isinstance(a, float) and isinstance(b, float):
        return (math.isnan(a) and math.isnan(b)) or (a == b and math.copysign(1, a) == math.copysign(1, b))
    if isinstance(a, Decimal) and isinstance(b, Decimal):
        return (a.is_nan() and b.is_nan()) or (a == b and a.is_signed() == b.is_signed())
    if type(a) is not type(b):
        return False
    if dataclasses.is_dataclass(a):
        return all(_eq(getattr(a, f.name), getattr(b, f.name)) for f in dataclasses.fields(a))
    if isinstance(a, (list, tuple)) and not hasattr(a, "_fields"):
        return len(a) == len(b) and all(_eq(x, y) for x, y in zip(a, b))
    if isinstance(a, dict):
        return list(a.keys()) == list(b.keys()) and all(_eq(a[k], b[k]) for k in a)
    return a == b


def render_exec(i: int, v: int) -> bool:
    """
    pre: PART.get("lo", 0) <= i < PART.get("hi", len(POOL))
    pre: 0 <= v < len(VARS)
    post: _
    """
    ci = concretize(i, PART.get("hi", len(POOL)) - PART.get("lo", 0), PART.get("lo", 0))
    cv = concretize(v, len(VARS))
    with untraced():
        return result(_check(ci, cv))


def _check(ci, cv):
    obj = POOL[ci]
    src = PycodeSerializer().render(obj, VARS[cv])
    ns = {}
    exec(compile(src, "<rendered>", "exec"), ns)  # noqa: S102 - the property is exactly about executing this source
    return VARS[cv] in ns and _eq(ns[VARS[cv]], obj)


def explain(i, v):
    obj = POOL[i]
    src = PycodeSerializer().render(obj, VARS[v])
    out = {"object": repr(obj), "source": src}
    try:
        ns = {}
        exec(compile(src, "<rendered>", "exec"), ns)  # noqa: S102
        out["evaluated"] = repr(ns.get(VARS[v]))
    except Exception as e:  # noqa: BLE001
        out["exception"] = repr(e)
    return out


PRE = {}
EXPLAIN = {"render_exec": explain}


def plan(tier):
    jobs = []
    step = 8
    for lo in range(0, len(POOL), step):
        jobs.append(Job("render_exec", {"lo": lo, "hi": min(lo + step, len(POOL))}, 240, 30, note="selector driven"))
    return jobs
