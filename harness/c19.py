"""C19 - a shared binding context is safe under concurrent use (DESIGN.md §3.3, §5 C19).  Engine C."""

from __future__ import annotations

import sched
from harness import seam
from harness.common import PART, REPLAY, concretize, concretize_bs, known, result, untraced
from harness.models import *  # noqa: F401,F403
from vlib.jobs import Job

from xsdata.formats.dataclass.context import XmlContext
from xsdata.formats.dataclass.models.elements import XmlVar

META = {
    "functions": [
        "xsdata.formats.dataclass.context:XmlContext.build", "xsdata.formats.dataclass.context:XmlContext.fetch", "xsdata.formats.dataclass.context:XmlContext.find_type",
        "xsdata.formats.dataclass.context:XmlContext.find_types", "xsdata.formats.dataclass.context:XmlContext.build_xsi_cache", "xsdata.formats.dataclass.context:XmlContext.find_subclass",
        "xsdata.formats.dataclass.context:XmlContext.find_type_by_fields", "xsdata.formats.dataclass.context:XmlContext.local_names_match",
        "xsdata.formats.dataclass.models.elements:XmlVar.match_namespace",
        "fullcall: xsdata.formats.dataclass.parsers:XmlParser.from_string / JsonParser.from_string / TreeParser.from_string and xsdata.formats.dataclass.serializers:XmlSerializer.render / JsonSerializer.render "
        "(the whole package below them runs as is; only the schedule is symbolic)",
    ],
    "bounds": [
        "2 threads, each one operation from a pool of 12 (cold find_type by qname, fetch with xsi:type, build of the same / different classes, find_subclass, find_type_by_fields, wildcard match_namespace) on ONE shared cold XmlContext (or one shared XmlVar)",
        "the real methods are lowered at check time from their current source into generators that yield before every statement touching cache / xsi_cache / sys_modules / namespace_matches; "
        "the schedule = starting thread + the global step indices of <= 2 preemptions among the first 26 (quick) / 30 (thorough) steps, thorough also <= 3 preemptions among the first 22 steps for pairs of type-index operations, as symbolic integers: every schedule within the bound is executed",
        "selector driven: the schedule is enumerated by the solver's forking; each path runs concretely",
        "fullcall: 2 real threads sharing ONE cold XmlContext and ONE XmlParser / JsonParser / TreeParser / XmlSerializer / JsonSerializer instance; thread A (one complete parse / render call of a pool document) is suspended at "
        "its k-th line event inside the xsdata package, k a symbolic integer over EVERY line boundary of the call (1k-6k per call, also inside comprehensions, sort keys and nested calls); thread B then runs one complete call; A resumes. "
        "Both results must equal the results of the calls run alone on fresh instances. quick: 5 x 4 operation pairs (+ 3 XInclude file-route pairs, a root xsi:type prefix pair, two cold first-render pairs) with 11 loaded model classes; thorough: the quick pairs plus 102 x 2 pairs with all harness classes loaded",
    ],
    "outside": ["preemption inside a statement", "more than 2 threads, more preemptions", "the parsers' per-call state (not shared by design)", "full parse / serialize calls with more than one preemption (fullcall explores exactly one suspension of A with B atomic; finer interleavings only for the lowered context / XmlVar API)", "file routes other than from_path with XInclude on two directories"],
    "stubs": ["XmlContext.get_subclasses(object) iterates a pool of model classes (the set of loaded classes is environment)", "coroutine lowering (sched/__init__.py) stands for thread preemption at statement boundaries"],
    "assumptions": ["the GIL makes single bytecode-level dict/list operations atomic; a statement boundary is a possible preemption point"],
}

_POOL = [Base, Derived, Sibling, Holder, Basic, Wild, ShapeBase, CircleV1, CircleV2]
_INFO = None
SHARED = ["cache", "xsi_cache", "sys_modules", "namespace_matches"]
CTX_METHODS = ["build", "fetch", "find_type", "find_types", "build_xsi_cache", "find_subclass", "find_type_by_fields", "local_names_match"]


def _lower():
    global _INFO
    if _INFO is None:
        seam.stub_loaded_classes(_POOL)
        a = sched.lower(XmlContext, CTX_METHODS, SHARED)
        b = sched.lower(XmlVar, ["match_namespace"], SHARED)
        pts = dict(a["points"])
        for f, ls in b["points"].items():
            pts.setdefault(f, []).extend(ls)
        _INFO = {"points": pts}
    return _INFO


def _meta_key(m):
    return (m.clazz, m.qname, m.target_qname, tuple(v.qname for v in m.get_all_vars()))


# operation = (label, generator factory on (ctx, var), plain callable on (ctx, var), normaliser of the result)
def _ops():
    ident = lambda r: r  # noqa: E731
    return [
        ("find_type derived", lambda c, v: c.find_type__co("{urn:a}derived"), lambda c, v: c.find_type("{urn:a}derived"), ident),
        ("find_type sibling", lambda c, v: c.find_type__co("{urn:a}sibling"), lambda c, v: c.find_type("{urn:a}sibling"), ident),
        ("find_type unknown", lambda c, v: c.find_type__co("{urn:a}nope"), lambda c, v: c.find_type("{urn:a}nope"), ident),
        ("fetch Base xsi derived", lambda c, v: c.fetch__co(Base, None, "{urn:a}derived"), lambda c, v: c.fetch(Base, None, "{urn:a}derived"), _meta_key),
        ("build Holder", lambda c, v: c.build__co(Holder), lambda c, v: c.build(Holder), _meta_key),
        ("build Base", lambda c, v: c.build__co(Base), lambda c, v: c.build(Base), _meta_key),
        ("find_subclass Base sibling", lambda c, v: c.find_subclass__co(Base, "{urn:a}sibling"), lambda c, v: c.find_subclass(Base, "{urn:a}sibling"), ident),
        ("find_type_by_fields x,y", lambda c, v: c.find_type_by_fields__co({"x", "y"}), lambda c, v: c.find_type_by_fields({"x", "y"}), ident),
        ("find_subclass ShapeBase circle (name shared by two classes)", lambda c, v: c.find_subclass__co(ShapeBase, "{urn:a}circle"), lambda c, v: c.find_subclass(ShapeBase, "{urn:a}circle"), ident),
        ("find_type circle (name shared by two classes)", lambda c, v: c.find_type__co("{urn:a}circle"), lambda c, v: c.find_type("{urn:a}circle"), ident),
        ("match_namespace other", lambda c, v: v.match_namespace__co("{urn:c}foo"), lambda c, v: v.match_namespace("{urn:c}foo"), ident),
        ("match_namespace own", lambda c, v: v.match_namespace__co("{urn:a}foo"), lambda c, v: v.match_namespace("{urn:a}foo"), ident),
    ]


NOPS = 12
MAXSTEP = PART.get("maxstep", 40)
INDEX_USERS = [0, 1, 2, 3, 6, 7, 8, 9]


def _b_ok(b):
    bs = PART.get("bs")
    if bs is None:
        return True
    return any([b == x for x in bs])


_VAR0 = None


def _fresh():
    global _VAR0
    import copy

    if _VAR0 is None:
        _VAR0 = XmlContext().build(WOtherFresh()).wildcards[0]
    var = copy.copy(_VAR0)
    var.namespace_matches = None
    return XmlContext(), var


def WOtherFresh():
    from harness.models import WOther

    return WOther


def _norm(res, norm):
    return (res[0], norm(res[1]) if res[0] == "ok" else res[1])


def interleave(a: int, b: int, start: int, p1: int, p2: int, p3: int, p4: int = -1, p5: int = -1) -> bool:
    """
    pre: p3 < p4 < MAXSTEP or p4 == -1
    pre: p4 < p5 < MAXSTEP or p5 == -1
    pre: p4 <= PART.get("p4max", -1)
    pre: p5 <= PART.get("p4max", -1)
    pre: p3 >= 0 or p4 == -1
    pre: p4 >= 0 or p5 == -1
    pre: a == PART.get("a", 0)
    pre: 0 <= b < NOPS
    pre: _b_ok(b)
    pre: 0 <= start <= 1
    pre: -1 <= p1 < MAXSTEP
    pre: p1 < p2 < MAXSTEP or p2 == -1
    pre: p2 < p3 < MAXSTEP or p3 == -1
    pre: p2 <= PART.get("p2max", -1)
    pre: p3 <= PART.get("p3max", -1)
    pre: p1 >= 0 or p2 == -1
    pre: p2 >= 0 or p3 == -1
    post: _
    """
    ca, cb, cs = concretize(a, NOPS), concretize(b, NOPS), concretize(start, 2)
    c1, c2, c3 = concretize(p1, MAXSTEP + 1, -1), concretize(p2, MAXSTEP + 1, -1), concretize(p3, MAXSTEP + 1, -1)
    c4, c5 = concretize(p4, MAXSTEP + 1, -1), concretize(p5, MAXSTEP + 1, -1)
    with untraced():
        return result(_run(ca, cb, cs, [p for p in (c1, c2, c3, c4, c5) if p >= 0]))


def _run(a, b, start, preempt):
    _lower()
    ops = _ops()
    want = []
    for o in (a, b):
        c, v = _fresh()
        try:
            want.append(("ok", ops[o][3](ops[o][2](c, v))))
        except Exception as e:  # noqa: BLE001
            want.append(("exc", type(e).__name__))
    c, v = _fresh()
    if REPLAY:
        # concrete replay = the UNLOWERED methods on real threads under the forced schedule (a lowering artefact does not reproduce)
        res, steps = sched.RealThreads(_INFO["points"], start, preempt).run([lambda: ops[a][2](c, v), lambda: ops[b][2](c, v)])
    else:
        gens = [ops[a][1](c, v), ops[b][1](c, v)]
        res, steps = sched.run_schedule(gens, start, preempt)
    got = [_norm(res[0], ops[a][3]), _norm(res[1], ops[b][3])]
    if preempt and max(preempt) >= steps:
        return True  # preemption index beyond the end of the run: same schedule as a shorter vector (already covered)
    return got == want


def replay_real(a, b, start, p1, p2, p3, p4=-1, p5=-1):
    """Replay on real threads with the UNLOWERED methods under a forced schedule (sys.settrace)."""
    info = _lower()
    ops = _ops()
    want = []
    for o in (a, b):
        c, v = _fresh()
        want.append(("ok", ops[o][3](ops[o][2](c, v))))
    c, v = _fresh()
    rt = sched.RealThreads(info["points"], start, [p for p in (p1, p2, p3, p4, p5) if p >= 0])
    res, _steps = rt.run([lambda: ops[a][2](c, v), lambda: ops[b][2](c, v)])
    got = [_norm(res[0], ops[a][3]), _norm(res[1], ops[b][3])]
    return {"real_threads": repr(got), "solo": repr(want), "real_threads_diverge": got != want, "ops": [ops[a][0], ops[b][0]]}


# ---------------------------------------------------------------------------------------------------------------------
# full calls on SHARED parser / serializer instances: thread A is suspended at one line boundary anywhere inside the
# xsdata package (symbolic index k into A's line events), thread B then runs one complete call, A resumes.
# Real threads, the real (unlowered) code, real lxml / expat / json front ends: the schedule is the only symbolic input.

FULL_DOCS = ["holder", "unionmodels", "basic", "wild", "unions", "compound", "shapes", "family", "qnames", "enums", "anytyped", "wlderived", "mixed", "holdernest", "nillable", "parenta"]
FULL_KINDS = ["xp", "xpn", "xs", "jp", "jpn", "js"]
_FULL = None


def _full_ops():
    """[(label, callable(shared))]: index = len(FULL_KINDS) * doc index + kind index, then the extra operations."""
    global _FULL
    if _FULL is not None:
        return _FULL
    import dataclasses
    import warnings

    import harness.models as hm
    from harness import mutate
    from xsdata.formats.dataclass.serializers import JsonSerializer, XmlSerializer

    warnings.simplefilter("ignore")
    if PART.get("small"):  # the loaded model classes are environment: the quick tier loads only the ones its documents use
        seam.stub_loaded_classes([Base, Derived, Sibling, DerivedNest, Child, Holder, Basic, Wild, UnionModels, Numeric, Textual])
    else:
        seam.stub_loaded_classes([c for c in vars(hm).values() if isinstance(c, type) and dataclasses.is_dataclass(c) and c.__module__ == hm.__name__])
    c0 = XmlContext()
    xs, js = XmlSerializer(context=c0), JsonSerializer(context=c0)
    ops = []
    for name in FULL_DOCS:
        cls, obj = mutate.DOCS[name]
        xml, jsn = xs.render(obj), js.render(obj)
        ops.append(("xp:" + name, lambda s, xml=xml, cls=cls: s["xp"].from_string(xml, cls)))
        ops.append(("xpn:" + name, lambda s, xml=xml: s["xp"].from_string(xml)))
        ops.append(("xs:" + name, lambda s, obj=obj: s["xs"].render(obj)))
        ops.append(("jp:" + name, lambda s, jsn=jsn, cls=cls: s["jp"].from_string(jsn, cls)))
        ops.append(("jpn:" + name, lambda s, jsn=jsn: s["jp"].from_string(jsn)))
        ops.append(("js:" + name, lambda s, obj=obj: s["js"].render(obj)))
    bad = '<basic xmlns="urn:a"><i>abc</i><s>q</s></basic>'
    ops.append(("xp:badint", lambda s: s["xp"].from_string(bad, Basic)))
    ops.append(("jp:badint", lambda s: s["jp"].from_string('{"i": "abc", "s": "q"}', Basic)))
    unk = '<holder xmlns="urn:a" xmlns:xsi="http://www.w3.org/2001/XMLSchema-instance"><b xsi:type="nope"><x>1</x></b></holder>'
    ops.append(("xp:unknown-xsi", lambda s: s["xp"].from_string(unk, Holder)))
    ops.append(("xpn:unknown-root", lambda s: s["xp"].from_string('<nope xmlns="urn:zz"/>')))
    ops.append(("xpn:derived-root", lambda s: s["xp"].from_string('<derived xmlns="urn:a"><x>1</x><y>q</y></derived>')))
    ops.append(("tp:wild", lambda s, xml=xs.render(mutate.DOCS["wild"][1]): s["tp"].from_string(xml)))
    xsia = '<base xmlns="urn:a" xmlns:t="urn:a" xmlns:xsi="http://www.w3.org/2001/XMLSchema-instance" xsi:type="t:derived"><x>1</x><y>q</y></base>'
    ops.append(("xp:root-xsi-t", lambda s: s["xp"].from_string(xsia, Base)))  # the ROOT's xsi:type uses a prefix ...
    ops.append(("xp:prefix-t-other", lambda s: s["xp"].from_string('<basic xmlns="urn:a" xmlns:t="urn:b"><i>1</i></basic>', Basic)))  # ... that another document binds elsewhere
    # file routes on a shared XInclude-enabled parser (both handlers): two directories, each with its own part.xml
    files = _xinclude_files()
    for h in ("xi_lxml", "xi_native"):
        for name in ("alpha", "beta"):
            ops.append((f"{h}:{name}", lambda s, h=h, path=files[name]: s[h].from_path(path, Basic)))
    _FULL = ops
    return ops


def _xinclude_files():
    """<tmp>/alpha/main.xml and <tmp>/beta/main.xml, both including href="part.xml" (their own directory's); removed at exit."""
    import atexit
    import pathlib
    import shutil
    import tempfile

    root = pathlib.Path(tempfile.mkdtemp(prefix="xsv_c19_"))
    atexit.register(shutil.rmtree, str(root), True)
    out = {}
    for name in ("alpha", "beta"):
        (root / name).mkdir()
        (root / name / "main.xml").write_text('<basic xmlns="urn:a" xmlns:xi="http://www.w3.org/2001/XInclude"><i>1</i><xi:include href="part.xml"/></basic>')
        (root / name / "part.xml").write_text(f'<s xmlns="urn:a">{name}</s>')
        out[name] = root / name / "main.xml"
    return out


def full_index(label):
    return [n for n, _ in _full_ops()].index(label)


def _full_shared():
    from xsdata.formats.dataclass.parsers import JsonParser, TreeParser, XmlParser
    from xsdata.formats.dataclass.parsers.config import ParserConfig
    from xsdata.formats.dataclass.parsers.handlers import LxmlEventHandler, XmlEventHandler
    from xsdata.formats.dataclass.serializers import JsonSerializer, XmlSerializer

    c = XmlContext()
    return {"xp": XmlParser(context=c), "xs": XmlSerializer(context=c), "jp": JsonParser(context=c), "js": JsonSerializer(context=c), "tp": TreeParser(context=c),
            "xi_lxml": XmlParser(context=c, config=ParserConfig(process_xinclude=True), handler=LxmlEventHandler),
            "xi_native": XmlParser(context=c, config=ParserConfig(process_xinclude=True), handler=XmlEventHandler)}


def _full_call(f, shared):
    try:
        return ("ok", f(shared))
    except Exception as e:  # noqa: BLE001
        return ("exc", type(e).__name__, str(e)[:120])


def _full_root():
    import os

    import xsdata

    return os.path.dirname(os.path.abspath(xsdata.__file__)) + os.sep


def _full_run(fa, fb, k):
    """A on its own thread under a line hook; at A's k-th line event inside the xsdata package B runs to completion on a second thread."""
    import sys
    import threading

    shared, out, count, root = _full_shared(), {}, [0], _full_root()

    def local(frame, event, arg):
        if event == "line":
            if count[0] == k:
                t = threading.Thread(target=lambda: out.__setitem__("b", _full_call(fb, shared)))
                t.start()
                t.join()
            count[0] += 1
        return local

    def glob(frame, event, arg):
        return local if frame.f_code.co_filename.startswith(root) else None

    def body():
        sys.settrace(glob)
        try:
            out["a"] = _full_call(fa, shared)
        finally:
            sys.settrace(None)

    t = threading.Thread(target=body)
    t.start()
    t.join()
    return out, count[0]


_FULL_INFO = {}


def _full_info(a):
    """(solo results of every operation on a fresh shared state, number of line events of operation a)."""
    if "solo" not in _FULL_INFO:
        with untraced():
            ops = _full_ops()
            for _n, f in ops:
                _full_call(f, _full_shared())  # warm process-global memo tables (lru caches) so that line counts are stable
            _FULL_INFO["solo"] = [_full_call(f, _full_shared()) for _n, f in ops]
    if a not in _FULL_INFO:
        with untraced():
            ops = _full_ops()
            _FULL_INFO[a] = _full_run(ops[a][1], ops[a][1], -1)[1]
    return _FULL_INFO["solo"], _FULL_INFO[a]


def _full_nlines():
    return _full_info(PART.get("a", 0))[1]


def fullcall(a: int, b: int, k: int) -> bool:
    """
    pre: a == PART.get("a", 0)
    pre: b == PART.get("b", 0)
    pre: 0 <= k < _full_nlines()
    post: _
    """
    ca, cb = PART.get("a", 0), PART.get("b", 0)
    ck = concretize_bs(k, _full_nlines())
    with untraced():
        return result(_fullcall(ca, cb, ck)["ok"])


def _uses_child(label):
    """Operations on the documents that contain the namespace-less class Child under a namespaced parent (the signature of the C14 finding)."""
    return label.split(":")[-1] in ("parenta", "holdernest")


_SERIAL = {}
_KNOWN_C14 = known("C14-cache-parent-namespace")


def _serial(a, b):
    """Results of the two SERIAL orders on one shared state.  For pairs of operations on the documents that hold the namespace-less
    class Child (exactly the signature of the listed known finding C14-cache-parent-namespace, history dependence) an interleaved
    run may, while that finding is listed, return what one of the serial orders returns."""
    if (a, b) not in _SERIAL:
        ops = _full_ops()
        s1 = _full_shared()
        ab = (_full_call(ops[a][1], s1), _full_call(ops[b][1], s1))
        s2 = _full_shared()
        bb = _full_call(ops[b][1], s2)
        ba = (_full_call(ops[a][1], s2), bb)
        _SERIAL[(a, b)] = (ab, ba)
    return _SERIAL[(a, b)]


def _fullcall(a, b, k):
    solo, _n = _full_info(a)
    ops = _full_ops()
    out, _steps = _full_run(ops[a][1], ops[b][1], k)
    if "b" not in out:
        return {"ok": True, "skipped": "preemption index beyond the end of A"}
    ok_a, ok_b = [solo[a]], [solo[b]]
    if _KNOWN_C14 and _uses_child(ops[a][0]) and _uses_child(ops[b][0]):
        ab, ba = _serial(a, b)
        ok_a += [ab[0], ba[0]]
        ok_b += [ab[1], ba[1]]
    return {"ok": out["a"] in ok_a and out["b"] in ok_b, "a": ops[a][0], "b": ops[b][0], "a_diverges": out["a"] != solo[a], "b_diverges": out["b"] != solo[b],
            "a_got": repr(out["a"])[:300], "a_solo": repr(solo[a])[:300], "b_got": repr(out["b"])[:300], "b_solo": repr(solo[b])[:300]}


def explain_full(a, b, k):
    return _fullcall(a, b, k)


PRE = {}
EXPLAIN = {"interleave": replay_real, "fullcall": explain_full}


FULL_QUICK_A = ["xp:holder", "xpn:holder", "xp:unionmodels", "xs:holder", "jpn:holder"]
FULL_QUICK_B = ["xp:holder", "xp:badint", "xp:wild", "jpn:holder"]
FULL_FILE_PAIRS = [("xi_lxml:alpha", "xi_lxml:beta"), ("xi_native:alpha", "xi_native:beta"), ("xi_native:beta", "xi_lxml:alpha"),
                   ("xp:root-xsi-t", "xp:prefix-t-other"), ("xs:wild", "xs:wild"), ("xs:compound", "xs:compound")]
FULL_THOROUGH_B = ["xp:holder", "xp:badint"]


def plan(tier):
    jobs = []
    quick = tier == "quick"
    labels = [n for n, _ in _full_ops()]
    for la in FULL_QUICK_A if quick else labels:
        for lb in FULL_QUICK_B if quick else FULL_THOROUGH_B:
            part = {"a": labels.index(la), "b": labels.index(lb)}
            if quick:
                part["small"] = 1
            jobs.append(Job("fullcall", part, 900 if quick else 3000, 60, note=f"A={la} suspended at any line boundary, B={lb} runs to completion"))
    for la, lb in FULL_FILE_PAIRS:
        jobs.append(Job("fullcall", {"a": labels.index(la), "b": labels.index(lb), "small": 1}, 900, 60, note=f"A={la} suspended at any line boundary, B={lb} runs to completion (XInclude file route)"))
    if not quick:
        for la in FULL_QUICK_A:
            for lb in FULL_QUICK_B:
                jobs.append(Job("fullcall", {"a": labels.index(la), "b": labels.index(lb), "small": 1}, 3000, 60, note=f"A={la} suspended at any line boundary, B={lb} runs to completion"))
    for a in range(NOPS):
        if quick:
            # every pair with <= 1 preemption; pairs of operations that use the type index with <= 2 preemptions
            jobs.append(Job("interleave", {"a": a, "p2max": -1, "p3max": -1, "maxstep": 26}, 300, 60, note="selector driven, <= 1 preemption"))
            if a in (10, 11):  # the two short memo operations: every interleaving with <= 5 preemptions
                jobs.append(Job("interleave", {"a": a, "bs": [b for b in (10, 11) if b >= a], "p2max": 9, "p3max": 9, "p4max": 9, "maxstep": 10}, 400, 60, note="selector driven, <= 5 preemptions"))
            if a in INDEX_USERS:
                jobs.append(Job("interleave", {"a": a, "bs": [b for b in INDEX_USERS if b >= a], "p2max": 25, "p3max": -1, "maxstep": 26}, 300, 60, note="selector driven, <= 2 preemptions"))
        else:
            for b in range(a, NOPS):
                jobs.append(Job("interleave", {"a": a, "bs": [b], "p2max": 29, "p3max": -1, "maxstep": 30}, 3000, 60, note="selector driven, <= 2 preemptions among the first 30 steps"))
                if a in INDEX_USERS and b in INDEX_USERS:
                    jobs.append(Job("interleave", {"a": a, "bs": [b], "p2max": 21, "p3max": 21, "maxstep": 22}, 3000, 60, note="selector driven, <= 3 preemptions among the first 22 steps"))
    return jobs
