"""Shared helpers for harness modules."""
import json
import os

PART = json.loads(os.environ.get("XSV_PART", "{}") or "{}")
TWIN = os.environ.get("XSV_TWIN", "0") == "1"
REPLAY = os.environ.get("XSV_REPLAY", "0") == "1"
VERIF = os.path.dirname(os.path.dirname(os.path.abspath(__file__)))


def result(ok):
    """Postcondition value of a driver; the reachability twin (XSV_TWIN=1) returns False at the same point."""
    if TWIN:
        return False
    return bool(ok)


def known(entry_id):
    """True iff known_findings.json lists entry_id with status 'known' (drivers then exclude exactly its signature)."""
    with open(os.path.join(VERIF, "known_findings.json")) as f:
        data = json.load(f)
    for e in data.get("findings", []):
        if e.get("id") == entry_id:
            return e.get("status") == "known"
    return False
