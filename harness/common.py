"""Shared helpers for harness modules."""
import json
import os

PART = json.loads(os.environ.get("XSV_PART", "{}") or "{}")
TWIN = os.environ.get("XSV_TWIN", "0") == "1"
REPLAY = os.environ.get("XSV_REPLAY", "0") == "1"
VERIF = os.path.dirname(os.path.dirname(os.path.abspath(__file__)))


def result(ok):
    """Postcondition value of a driver; the reachability twin (XSV_TWIN=1) returns False at the same point."""
    if TWIN:
        return False
    return bool(ok)


def known(entry_id):
    """True iff known_findings.json lists entry_id with status 'known' (drivers then exclude exactly its signature)."""
    with open(os.path.join(VERIF, "known_findings.json")) as f:
        data = json.load(f)
    for e in data.get("findings", []):
        if e.get("id") == entry_id:
            return e.get("status") == "known"
    return False


def str_eq(a, b):
    """String equality that avoids CrossHair's SequenceConcatenation.__eq__ (internal error on concatenated symbolic strings)."""
    n = len(a)
    if n != len(b):
        return False
    return all([ord(a[i]) == ord(b[i]) for i in range(n)])


def deep_eq(a, b):
    """Structural equality of model instances (dataclass ==, but strings compared code point by code point)."""
    import dataclasses

    if isinstance(a, str) and isinstance(b, str):
        return str_eq(a, b)
    if a is None or b is None:
        return a is None and b is None
    if dataclasses.is_dataclass(a) and not isinstance(a, type):
        if type(a) is not type(b):
            return False
        for f in dataclasses.fields(a):
            if f.compare and not deep_eq(getattr(a, f.name), getattr(b, f.name)):
                return False
        return True
    if isinstance(a, (list, tuple)) and not hasattr(a, "_fields"):
        if type(a) is not type(b) or len(a) != len(b):
            return False
        for x, y in zip(a, b):
            if not deep_eq(x, y):
                return False
        return True
    if isinstance(a, dict):
        if not isinstance(b, dict) or len(a) != len(b):
            return False
        for k in a:
            if k not in b or not deep_eq(a[k], b[k]):
                return False
        return True
    if isinstance(a, bool) or isinstance(b, bool):
        return isinstance(a, bool) and isinstance(b, bool) and a == b
    if type(a) is not type(b) and not (isinstance(a, int) and isinstance(b, int)):
        return False
    return a == b


def small_alphabet(s):
    """Bound for corrupt/hostile strings that reach int(): every code point is ASCII or one of three representative
    non-ASCII code points (U+00E9 letter, U+0663 Unicode digit, U+2000 Unicode space) - the int() model is exact there,
    anything else would make CrossHair realise (sample) the character."""
    return all([any([c < 128, c == 0xE9, c == 0x663, c == 0x2000]) for c in [ord(ch) for ch in s]])


def pick(seq, k):
    """Select seq[k] by explicit forking (indexing a list of *classes* with a symbolic int makes CrossHair build a symbolic type)."""
    for i in range(len(seq) - 1):
        if k == i:
            return seq[i]
    return seq[-1]


def concretize(k, n, lo=0):
    """Fork on the symbolic selector k in [lo, lo+n) and return a *concrete* int on each path."""
    for i in range(lo, lo + n - 1):
        if k == i:
            return i
    return lo + n - 1


def concretize_bs(k, n, lo=0):
    """Like concretize, by bisection: log2(n) forks per path instead of n (for selectors with thousands of values)."""
    hi = lo + n - 1
    while lo < hi:
        mid = (lo + hi) // 2
        if k <= mid:
            hi = mid
        else:
            lo = mid + 1
    return lo


def untraced():
    """Context manager: run concrete (selector-determined) work without CrossHair tracing (50-100x faster)."""
    import contextlib

    try:
        from crosshair.tracers import NoTracing, is_tracing

        return NoTracing() if is_tracing() else contextlib.nullcontext()
    except Exception:  # noqa: BLE001
        return contextlib.nullcontext()
