"""Translation validation of the CrossHair model pack: the models, run symbolically on values pinned
to a boundary grid, must agree with CPython (expected values computed concretely at import)."""

INTS = [0, 1, 9, 10, 11, 99, 100, 101, 999, 1000, 1001, 9999, 10000, 99999, 100000, 999999, 1000000,
        99999999, 100000000, 999999999, 1000000000, 99999999999, 100000000000, 999999999999,
        -1, -9, -10, -99, -100, -999, -1000, -9999, -10000, -999999, -1000000000]
FINTS = [0, 9, 10, 99, 100, 999, 1000, 9999, 10000, 999999999, 1000000000, -1, -10, -999, -1000]
SPECS = ["d", "02d", "04d", "09d"]
EXPECT_FMT = [[format(x, sp) for sp in SPECS] for x in FINTS]
EXPECT_STR = [str(x) for x in INTS]

STRS = ["0", "7", "42", "007", "-0", "-7", "+7", " 7", "7 ", "\t7\n", "1_0", "1__0", "_1", "1_", "+", "-", "", " ",
        "+-1", "1 1", "12a", "a", "1.0", "0x1", "99999", "-00100", "\x1f5", "5\x0b", "1_2_3", "٣", "+ 1", "\u2000٣1 ", "é1", "1é", "-٣٣"]


def _py_int(s):
    try:
        return int(s)
    except ValueError:
        return None


EXPECT_INT = [_py_int(s) for s in STRS]


def fmt_grid(i: int, j: int, x: int) -> bool:
    """
    pre: 0 <= i < len(FINTS)
    pre: 0 <= j < len(SPECS)
    pre: x == FINTS[i]
    post: _
    """
    return format(x, SPECS[j]) == EXPECT_FMT[i][j] and f"{x:04d}" == EXPECT_FMT[i][2]


def str_grid(i: int, x: int) -> bool:
    """
    pre: 0 <= i < len(INTS)
    pre: x == INTS[i]
    post: _
    """
    return str(x) == EXPECT_STR[i] and repr(x) == EXPECT_STR[i] and f"{x}" == EXPECT_STR[i]


def int_grid(i: int, s: str) -> bool:
    """
    pre: 0 <= i < len(STRS)
    pre: s == STRS[i]
    post: _
    """
    try:
        got = int(s)
    except ValueError:
        got = None
    return got == EXPECT_INT[i]
