"""Model pool: the "programs" quantifier (DESIGN.md §4).

One small binding model per documented metadata feature and the interactions the property anchors name.
Everything outside this pool is outside every claim; the pool is listed in evidence.
"""

from __future__ import annotations

from dataclasses import dataclass, field
from decimal import Decimal
from enum import Enum
from typing import Dict, List, Optional, Tuple, Union
from xml.etree.ElementTree import QName

from xsdata.formats.dataclass.models.generics import AnyElement, DerivedElement
from xsdata.models.datatype import XmlDate, XmlDateTime, XmlDuration, XmlPeriod, XmlTime

NS_A = "urn:a"
NS_B = "urn:b"


# --------------------------------------------------------------------------- elements / attributes / text
@dataclass
class Basic:
    class Meta:
        name = "basic"
        namespace = NS_A

    i: int = field(metadata={"type": "Element"})
    s: Optional[str] = field(default=None, metadata={"type": "Element"})
    b: bool = field(default=False, metadata={"type": "Attribute"})
    num: Optional[int] = field(default=None, metadata={"type": "Attribute", "name": "n"})


@dataclass
class TextAttr:
    class Meta:
        name = "ta"

    value: int = field(default=0, metadata={"type": "Text"})
    a: Optional[str] = field(default=None, metadata={"type": "Attribute"})
    q: Optional[str] = field(default=None, metadata={"type": "Attribute", "namespace": NS_B})


@dataclass
class TextStr:
    class Meta:
        name = "ts"
        namespace = NS_A

    value: str = field(default="", metadata={"type": "Text"})
    a: int = field(default=3, metadata={"type": "Attribute"})


@dataclass
class ReqText:
    """Required text and element fields without defaults."""

    class Meta:
        name = "rq"

    value: str = field(metadata={"type": "Text"})
    a: int = field(metadata={"type": "Attribute"})


# --------------------------------------------------------------------------- lists, tokens, tuples (frozen)
@dataclass
class Lists:
    class Meta:
        name = "lists"
        namespace = NS_A

    ints: List[int] = field(default_factory=list, metadata={"type": "Element", "name": "i"})
    strs: List[str] = field(default_factory=list, metadata={"type": "Element", "name": "s"})
    toks: List[int] = field(default_factory=list, metadata={"type": "Element", "tokens": True})
    atoks: List[str] = field(default_factory=list, metadata={"type": "Attribute", "tokens": True})


@dataclass
class TokenLists:
    class Meta:
        name = "tl"

    rows: List[List[int]] = field(default_factory=list, metadata={"type": "Element", "name": "row", "tokens": True})


@dataclass(frozen=True)
class Frozen:
    class Meta:
        name = "frozen"
        namespace = NS_A

    x: int = field(metadata={"type": "Element"})
    items: Tuple[int, ...] = field(default_factory=tuple, metadata={"type": "Element", "name": "item"})
    toks: Tuple[str, ...] = field(default_factory=tuple, metadata={"type": "Attribute", "tokens": True})


# --------------------------------------------------------------------------- nillable
@dataclass
class Nillable:
    class Meta:
        name = "nil"
        namespace = NS_A

    i: Optional[int] = field(default=None, metadata={"type": "Element", "nillable": True})
    s: Optional[str] = field(default=None, metadata={"type": "Element", "nillable": True})
    many: List[Optional[int]] = field(default_factory=list, metadata={"type": "Element", "name": "m", "nillable": True})


@dataclass
class NilChild:
    class Meta:
        name = "nc"
        nillable = True

    v: Optional[int] = field(default=None, metadata={"type": "Element"})


@dataclass
class NilParent:
    class Meta:
        name = "np"

    c: Optional[NilChild] = field(default=None, metadata={"type": "Element", "name": "nc"})
    after: int = field(default=0, metadata={"type": "Element"})


# --------------------------------------------------------------------------- nested classes and namespaces
@dataclass
class Child:
    v: int = field(default=0, metadata={"type": "Element"})
    a: Optional[str] = field(default=None, metadata={"type": "Attribute"})


@dataclass
class ParentA:
    class Meta:
        name = "pa"
        namespace = NS_A

    item: Optional[Child] = field(default=None, metadata={"type": "Element"})
    items: List[Child] = field(default_factory=list, metadata={"type": "Element", "name": "it"})
    other: Optional[int] = field(default=None, metadata={"type": "Element", "namespace": NS_B})
    local: Optional[int] = field(default=None, metadata={"type": "Element", "namespace": ""})


@dataclass
class ParentB:
    class Meta:
        name = "pb"
        namespace = NS_B

    item: Optional[Child] = field(default=None, metadata={"type": "Element"})


@dataclass
class NsAttr:
    """Class in one namespace with an attribute in another one (needs two generated prefixes on one element)."""

    class Meta:
        name = "na"
        namespace = NS_B

    a: Optional[str] = field(default=None, metadata={"type": "Attribute", "namespace": NS_A})
    x: Optional[int] = field(default=None, metadata={"type": "Element"})


@dataclass
class Unqualified:
    """Root in a namespace, children unqualified (elementFormDefault=unqualified)."""

    class Meta:
        name = "uq"
        namespace = NS_A

    x: int = field(default=0, metadata={"type": "Element", "namespace": ""})
    y: Optional[str] = field(default=None, metadata={"type": "Element", "namespace": ""})
    z: Optional[int] = field(default=None, metadata={"type": "Element"})


# --------------------------------------------------------------------------- sequence / wrapper
@dataclass
class Sequential:
    class Meta:
        name = "seq"

    a: List[int] = field(default_factory=list, metadata={"type": "Element", "sequence": 1})
    b: List[str] = field(default_factory=list, metadata={"type": "Element", "sequence": 1})
    c: Optional[int] = field(default=None, metadata={"type": "Element"})


@dataclass
class Wrapped:
    class Meta:
        name = "wr"
        namespace = NS_A

    ints: List[int] = field(default_factory=list, metadata={"type": "Element", "name": "i", "wrapper": "ints"})
    tail: Optional[str] = field(default=None, metadata={"type": "Element"})


# --------------------------------------------------------------------------- formats
@dataclass
class Formats:
    class Meta:
        name = "fmt"

    h: Optional[bytes] = field(default=None, metadata={"type": "Element", "format": "base16"})
    b: Optional[bytes] = field(default=None, metadata={"type": "Attribute", "format": "base64"})
    hs: List[bytes] = field(default_factory=list, metadata={"type": "Element", "format": "base16", "tokens": True})


# --------------------------------------------------------------------------- unions and enums
class Color(Enum):
    RED = "red"
    GREEN = "green"


class Num(Enum):
    ONE = 1
    TWO = 2


class QEnum(Enum):
    A = QName(NS_A, "a")
    B = QName("b")


@dataclass
class Unions:
    class Meta:
        name = "un"

    u: Union[int, str] = field(default=0, metadata={"type": "Element"})
    ub: Optional[Union[bool, int]] = field(default=None, metadata={"type": "Attribute"})
    us: List[Union[int, str]] = field(default_factory=list, metadata={"type": "Element"})


@dataclass
class Enums:
    class Meta:
        name = "en"
        namespace = NS_A

    c: Color = field(default=Color.RED, metadata={"type": "Element"})
    n: Optional[Num] = field(default=None, metadata={"type": "Attribute"})
    cs: List[Color] = field(default_factory=list, metadata={"type": "Element"})
    q: Optional[QEnum] = field(default=None, metadata={"type": "Element"})


@dataclass
class QNames:
    class Meta:
        name = "qn"
        namespace = NS_A

    q: Optional[QName] = field(default=None, metadata={"type": "Element"})
    qa: Optional[QName] = field(default=None, metadata={"type": "Attribute"})
    qs: List[QName] = field(default_factory=list, metadata={"type": "Element", "tokens": True})


# --------------------------------------------------------------------------- compound fields
@dataclass
class Alpha:
    class Meta:
        name = "alpha"

    v: int = field(default=0, metadata={"type": "Attribute"})


@dataclass
class Compound:
    class Meta:
        name = "cmp"

    choice: List[object] = field(
        default_factory=list,
        metadata={
            "type": "Elements",
            "choices": (
                {"name": "n", "type": int},
                {"name": "s", "type": str},
                {"name": "alpha", "type": Alpha},
                {"name": "f", "type": List[bool], "tokens": True},
            ),
        },
    )


@dataclass
class CompoundSingle:
    class Meta:
        name = "cs"
        namespace = NS_A

    one: Optional[Union[int, Alpha]] = field(
        default=None,
        metadata={"type": "Elements", "choices": ({"name": "n", "type": int}, {"name": "alpha", "type": Alpha, "namespace": NS_B})},
    )


# --------------------------------------------------------------------------- inheritance / xsi:type
@dataclass
class Base:
    class Meta:
        name = "base"
        namespace = NS_A

    x: int = field(default=0, metadata={"type": "Element"})


@dataclass
class Derived(Base):
    class Meta:
        name = "derived"
        namespace = NS_A

    y: Optional[str] = field(default=None, metadata={"type": "Element"})


@dataclass
class Sibling(Base):
    class Meta:
        name = "sibling"
        namespace = NS_A

    z: bool = field(default=False, metadata={"type": "Attribute"})


@dataclass
class Holder:
    class Meta:
        name = "holder"
        namespace = NS_A

    b: Optional[Base] = field(default=None, metadata={"type": "Element"})
    bs: List[Base] = field(default_factory=list, metadata={"type": "Element", "name": "bb"})


@dataclass
class DerivedNest(Base):
    """Subclass that itself contains a nested model (an object one level BELOW a best-match object in JSON)."""

    class Meta:
        name = "derivednest"
        namespace = NS_A

    inner: Optional[Child] = field(default=None, metadata={"type": "Element"})


@dataclass
class DerivedB(Base):
    """Subclass in ANOTHER namespace: the inherited field keeps the namespace of the class that declares it."""

    class Meta:
        name = "derivedb"
        namespace = NS_B

    w: Optional[int] = field(default=None, metadata={"type": "Element"})


@dataclass
class Dup:
    """The same element name bound to two fields of different types (first and a later position)."""

    class Meta:
        name = "dup"

    code: int = field(default=0, metadata={"type": "Element"})
    label: Optional[str] = field(default=None, metadata={"type": "Element"})
    alt_code: Optional[str] = field(default=None, metadata={"type": "Element", "name": "code"})


@dataclass
class Numeric:
    value: int = field(default=0, metadata={"type": "Element"})


@dataclass
class Textual:
    value: str = field(default="", metadata={"type": "Element"})


@dataclass
class UnionModels:
    """Union of two models with identical element names but different value types."""

    class Meta:
        name = "um"

    item: Optional[Union[Numeric, Textual]] = field(default=None, metadata={"type": "Element"})
    items: List[Union[Numeric, Textual]] = field(default_factory=list, metadata={"type": "Element", "name": "it"})


@dataclass
class NsAttrParent:
    """A namespace-qualified attribute on a NON-root element."""

    class Meta:
        name = "nap"
        namespace = NS_B

    child: Optional[NsAttr] = field(default=None, metadata={"type": "Element", "name": "na"})
    kids: List[NsAttr] = field(default_factory=list, metadata={"type": "Element", "name": "k"})


@dataclass
class ShapeBase:
    class Meta:
        name = "shape"
        namespace = NS_A

    r: int = field(default=0, metadata={"type": "Attribute"})


@dataclass
class CircleV1(ShapeBase):
    """Two model classes that share one xsi:type qualified name (an old and a new version of a binding)."""

    class Meta:
        name = "circle"
        namespace = NS_A

    v1: Optional[int] = field(default=None, metadata={"type": "Element"})


@dataclass
class CircleV2(ShapeBase):
    class Meta:
        name = "circle"
        namespace = NS_A

    v1: Optional[int] = field(default=None, metadata={"type": "Element"})
    v2: Optional[str] = field(default=None, metadata={"type": "Element"})


@dataclass
class ShapeHolder:
    class Meta:
        name = "sh"
        namespace = NS_A

    s: Optional[ShapeBase] = field(default=None, metadata={"type": "Element"})


@dataclass
class Family:
    """Compound field whose choices are related by inheritance, base listed first."""

    class Meta:
        name = "fam"
        namespace = NS_A

    members: List[Base] = field(
        default_factory=list,
        metadata={"type": "Elements", "choices": ({"name": "base", "type": Base}, {"name": "derived", "type": Derived}, {"name": "sibling", "type": Sibling})},
    )


# --------------------------------------------------------------------------- wildcards and attributes
@dataclass
class Wild:
    class Meta:
        name = "wild"
        namespace = NS_A

    known: Optional[int] = field(default=None, metadata={"type": "Element"})
    any: Optional[object] = field(default=None, metadata={"type": "Wildcard", "namespace": "##any"})
    attrs: Dict[str, str] = field(default_factory=dict, metadata={"type": "Attributes", "namespace": "##any"})


@dataclass
class WildList:
    class Meta:
        name = "wl"

    items: List[object] = field(default_factory=list, metadata={"type": "Wildcard", "namespace": "##other"})


@dataclass
class Mixed:
    class Meta:
        name = "mixed"

    content: List[object] = field(default_factory=list, metadata={"type": "Wildcard", "namespace": "##any", "mixed": True})


@dataclass
class MixedChoices:
    """Mixed wildcard that declares primitive choices (the values may be falsy: 0, false, '')."""

    class Meta:
        name = "mc"

    content: List[object] = field(
        default_factory=list,
        metadata={"type": "Wildcard", "namespace": "##any", "mixed": True,
                  "choices": ({"name": "n", "type": int}, {"name": "flag", "type": bool}, {"name": "s", "type": str})},
    )


@dataclass
class AnyTyped:
    """anyType element: primitives are emitted with xsi:type."""

    class Meta:
        name = "at"

    v: Optional[object] = field(default=None, metadata={"type": "Element"})


# --------------------------------------------------------------------------- fixed fields / defaults
@dataclass
class Defaults:
    class Meta:
        name = "df"

    fixed: str = field(init=False, default="v1", metadata={"type": "Attribute"})
    a: int = field(default=5, metadata={"type": "Attribute"})
    req: int = field(default=1, metadata={"type": "Attribute", "required": True})
    e: Optional[str] = field(default="dflt", metadata={"type": "Element"})


# --------------------------------------------------------------------------- dates & decimals (pool values)
@dataclass
class Temporal:
    class Meta:
        name = "tm"

    d: Optional[XmlDate] = field(default=None, metadata={"type": "Element"})
    t: Optional[XmlTime] = field(default=None, metadata={"type": "Attribute"})
    dt: Optional[XmlDateTime] = field(default=None, metadata={"type": "Element"})
    du: Optional[XmlDuration] = field(default=None, metadata={"type": "Element"})
    p: Optional[XmlPeriod] = field(default=None, metadata={"type": "Element"})
    dec: Optional[Decimal] = field(default=None, metadata={"type": "Element"})
    f: Optional[float] = field(default=None, metadata={"type": "Element"})


@dataclass
class LateV1:
    """Two classes that answer to one qualified name; LateV2 is 'imported' (added to the loaded classes) in the middle of a C14 history."""

    class Meta:
        name = "late"
        namespace = NS_A

    p: Optional[int] = field(default=None, metadata={"type": "Element"})


@dataclass
class LateV2:
    class Meta:
        name = "late"
        namespace = NS_A

    q: Optional[str] = field(default=None, metadata={"type": "Element"})


@dataclass
class RenA:
    """Models whose fields are RENAMED by metadata (python name != element / attribute name), chosen through a union / best match."""

    full_name: str = field(default="", metadata={"type": "Element", "name": "FullName"})
    kind: Optional[str] = field(default=None, metadata={"type": "Attribute", "name": "Kind"})


@dataclass
class RenB:
    item_count: int = field(default=0, metadata={"type": "Element", "name": "Count"})
    kind: Optional[str] = field(default=None, metadata={"type": "Attribute", "name": "Kind"})


@dataclass
class RenamedUnion:
    class Meta:
        name = "ru"

    item: Optional[Union[RenA, RenB]] = field(default=None, metadata={"type": "Element"})
    items: List[Union[RenA, RenB]] = field(default_factory=list, metadata={"type": "Element", "name": "it"})


@dataclass
class BoxA:
    inner: Optional[Child] = field(default=None, metadata={"type": "Element"})
    label: Optional[str] = field(default=None, metadata={"type": "Element"})
    tag: Optional[str] = field(default=None, metadata={"type": "Attribute"})


@dataclass
class BoxB:
    inner: Optional[Child] = field(default=None, metadata={"type": "Element"})
    n: int = field(default=0, metadata={"type": "Element"})
    tag: Optional[str] = field(default=None, metadata={"type": "Attribute"})


@dataclass
class UnionBoxes:
    """Union of two models whose nested children carry attributes (real text path only, not part of the loaded-classes pool)."""

    class Meta:
        name = "ub"

    item: Optional[Union[BoxA, BoxB]] = field(default=None, metadata={"type": "Element"})
    items: List[Union[BoxA, BoxB]] = field(default_factory=list, metadata={"type": "Element", "name": "it"})


ALL_MODELS = [Basic, TextAttr, TextStr, ReqText, Lists, TokenLists, Frozen, Nillable, NilChild, NilParent, Child, ParentA, ParentB, NsAttr, Unqualified,
              Sequential, Wrapped, Formats, Unions, Enums, QNames, Alpha, Compound, CompoundSingle, Base, Derived, Sibling, DerivedNest, DerivedB, Dup, Numeric, Textual, UnionModels, RenA, RenB, RenamedUnion, NsAttrParent, ShapeBase, CircleV1, CircleV2, ShapeHolder, Family, Holder,
              Wild, WildList, Mixed, MixedChoices, AnyTyped, Defaults, Temporal]


# --------------------------------------------------------------------------- wildcard namespace modes (C11)
def _wild_model(name, ns_mode, target=NS_A):
    @dataclass
    class W:
        any: List[object] = field(default_factory=list, metadata={"type": "Wildcard", "namespace": ns_mode})

    W.__name__ = W.__qualname__ = name
    W.Meta = type("Meta", (), {"name": "w", "namespace": target})
    return W


WAny = _wild_model("WAny", "##any")
WOther = _wild_model("WOther", "##other")
WLocal = _wild_model("WLocal", "##local")
WTarget = _wild_model("WTarget", "##targetNamespace")
WUri = _wild_model("WUri", NS_B)
WTwo = _wild_model("WTwo", "##local urn:b")
WILD_MODES = [WAny, WOther, WLocal, WTarget, WUri, WTwo]
ALL_MODELS.extend(WILD_MODES)


# --------------------------------------------------------------------------- nested / inner classes and enums (C18)
@dataclass
class Outer:
    class Shade(Enum):
        DARK = "dark"
        LIGHT = "light"

    @dataclass
    class Inner:
        v: int = field(default=0, metadata={"type": "Attribute"})
        words: Tuple[str, ...] = field(default_factory=tuple, metadata={"type": "Element"})

    inner: Optional["Outer.Inner"] = field(default=None, metadata={"type": "Element"})
    inners: List["Outer.Inner"] = field(default_factory=list, metadata={"type": "Element"})
    shade: Optional["Outer.Shade"] = field(default=None, metadata={"type": "Attribute"})
    shades: List["Outer.Shade"] = field(default_factory=list, metadata={"type": "Element"})
    color: Color = field(default=Color.RED, metadata={"type": "Element"})


@dataclass
class Bag:
    """Untyped holder for value-kind coverage of the code serializer."""

    v: object = field(default=None, metadata={"type": "Element"})
    vs: List[object] = field(default_factory=list, metadata={"type": "Element"})
    m: Dict[str, object] = field(default_factory=dict, metadata={"type": "Attributes"})
    fz: frozenset = field(default_factory=frozenset, metadata={"type": "Ignore"})


@dataclass
class Deep:
    """Classes and an enum nested two levels deep; non-empty default factories (C18)."""

    class Level(Enum):
        LOW = 1
        HIGH = 2

    @dataclass
    class Mid:
        class Kind(Enum):
            A = "a"
            B = "b"

        @dataclass
        class Leaf:
            n: int = field(default=0, metadata={"type": "Attribute"})

        leaf: Optional["Deep.Mid.Leaf"] = field(default=None, metadata={"type": "Element"})
        kind: Optional["Deep.Mid.Kind"] = field(default=None, metadata={"type": "Attribute"})

    mid: Optional["Deep.Mid"] = field(default=None, metadata={"type": "Element"})
    langs: List[str] = field(default_factory=lambda: ["en", "de"], metadata={"type": "Element"})
    pair: Tuple[int, ...] = field(default_factory=lambda: (1, 2), metadata={"type": "Element"})
    opts: Dict[str, str] = field(default_factory=lambda: {"k": "v"}, metadata={"type": "Attributes"})
    level: Optional["Deep.Level"] = field(default_factory=lambda: Deep.Level.LOW, metadata={"type": "Attribute"})
    text: Optional[str] = field(default="dflt", metadata={"type": "Element"})
