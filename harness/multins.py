"""Schema SETS over several namespaces / files for the code generation checks (C07, C12): two imported schemas that may
define same-named (or case-colliding) types plus a main schema that references both, optionally inside a repeating choice,
and may define a local type of the same name.  Mapped the way ResourceTransformer.convert_schema does (imports first, then
the importing schema), analysed by the real ClassContainer."""

from __future__ import annotations

NS_1 = "urn:acme:billing:v1"
NS_2 = "urn:acme:shipping:v2"
NS_M = "urn:acme:main"
LOC_1 = "file:///x/acme/billing/v1.xsd"
LOC_2 = "file:///x/acme/shipping/v2.xsd"
LOC_M = "file:///x/main.xsd"


def schema_set(n1, n2, nloc, choice=True, local=True, cross=False):
    """[(location, xsd text)] in transformer order.  n1 / n2: type names of the two imported namespaces; nloc: local type name."""
    xs = 'xmlns:xs="http://www.w3.org/2001/XMLSchema"'
    s1 = (f'<xs:schema {xs} targetNamespace="{NS_1}" xmlns="{NS_1}" elementFormDefault="qualified">'
          f'<xs:complexType name="{n1}"><xs:sequence><xs:element name="amount" type="xs:decimal"/></xs:sequence></xs:complexType>'
          f'<xs:simpleType name="Kind"><xs:restriction base="xs:string"><xs:enumeration value="a"/><xs:enumeration value="b"/></xs:restriction></xs:simpleType></xs:schema>')
    ref = f'<xs:element name="bill" type="b:{n1}" minOccurs="0"/>' if cross else ""
    s2 = (f'<xs:schema {xs} targetNamespace="{NS_2}" xmlns="{NS_2}" xmlns:b="{NS_1}" elementFormDefault="qualified">'
          f'<xs:complexType name="{n2}"><xs:sequence><xs:element name="weight" type="xs:int"/>{ref}</xs:sequence></xs:complexType>'
          f'<xs:simpleType name="Kind"><xs:restriction base="xs:string"><xs:enumeration value="c"/></xs:restriction></xs:simpleType></xs:schema>')
    items = f'<xs:element name="first" type="b:{n1}"/><xs:element name="second" type="s:{n2}"/>' + (f'<xs:element name="third" type="{nloc}"/>' if local else "")
    body = f'<xs:choice maxOccurs="unbounded">{items}</xs:choice>' if choice else f"<xs:sequence>{items}</xs:sequence>"
    loc = f'<xs:complexType name="{nloc}"><xs:sequence><xs:element name="v" type="xs:string"/></xs:sequence><xs:attribute name="k1" type="b:Kind"/><xs:attribute name="k2" type="s:Kind"/></xs:complexType>' if local else ""
    sm = (f'<xs:schema {xs} targetNamespace="{NS_M}" xmlns="{NS_M}" xmlns:b="{NS_1}" xmlns:s="{NS_2}" elementFormDefault="qualified">'
          f'<xs:element name="order"><xs:complexType>{body}<xs:attribute name="k1" type="b:Kind"/><xs:attribute name="k2" type="s:Kind"/></xs:complexType></xs:element>{loc}</xs:schema>')
    return [(LOC_1, s1), (LOC_2, s2), (LOC_M, sm)]


def container_for(schemas, cfg):
    from xsdata.codegen.container import ClassContainer
    from xsdata.codegen.mappers.schema import SchemaMapper
    from xsdata.codegen.parsers.schema import SchemaParser

    classes = []
    for location, text in schemas:
        classes.extend(SchemaMapper.map(SchemaParser(location=location).from_string(text)))
    container = ClassContainer(config=cfg)
    container.extend(classes)
    container.process()
    return container


def scope_problem(container, filters, resolver_cls, skip=None):
    """Independent reading of Python module scoping for the names the templates emit: per module, every imported name
    (alias or class name) and every top-level class name is bound once, and every non-native, non-inner type reference
    (attribute types, compound choice types, extensions), rendered as class_name(alias or name), is bound to the class it means."""
    skip = skip or (lambda a, b: False)  # (local name, local name) -> True for a collision that is a listed known finding
    local = lambda q: q.split("}")[-1]  # noqa: E731
    classes = list(container)
    registry = {cls.qname: cls.target_module for cls in classes}
    modules = {}
    for cls in classes:
        modules.setdefault(cls.target_module, []).append(cls)
    # a compound field is bindable only if no python type is shared between two of its choices (XmlVarBuilder.build_choices refuses it otherwise)
    def ambiguous(cls):
        for a in cls.attrs:
            seen = {}
            for c in a.choices:
                keys = set()
                for t in c.types:
                    dt = t.datatype
                    keys.add(dt.type.__name__ if dt else t.qname)
                for k in keys:
                    if k in seen and seen[k] != c.name:
                        return f"class {cls.name!r}: compound field {a.name!r}: choices {seen[k]!r} and {c.name!r} both bind {k!r} (not bindable: ambiguous types)"
                    seen[k] = c.name
        for inner in cls.inner:
            p = ambiguous(inner)
            if p:
                return p
        return None

    for cls in classes:
        p = ambiguous(cls)
        if p:
            return p
    for module in sorted(modules):
        resolver = resolver_cls(registry=registry)
        resolver.process(modules[module])
        scope, ambiguous = {}, set()
        for imp in resolver.sorted_imports():
            name = filters.class_name(imp.alias) if imp.alias else filters.class_name(imp.name)
            if name in scope and scope[name] != imp.qname and skip(local(scope[name]), local(imp.qname)):
                ambiguous.add(name)
            elif name in scope and scope[name] != imp.qname:
                return f"module {module}: imports {scope[name]!r} and {imp.qname!r} are both bound to {name!r}"
            scope[name] = imp.qname
        for cls in resolver.sorted_classes():
            name = filters.class_name(cls.name)
            if name in scope and scope[name] != cls.qname and skip(local(scope[name]), local(cls.qname)):
                ambiguous.add(name)
            elif name in scope and scope[name] != cls.qname:
                return f"module {module}: class {cls.qname!r} and {scope[name]!r} are both bound to {name!r}"
            scope[name] = cls.qname

        def walk(cls):
            refs = [(a.name, t) for a in cls.attrs for t in a.types]
            refs += [(a.name, t) for a in cls.attrs for c in a.choices for t in c.types]
            refs += [("<extension>", e.type) for e in cls.extensions]
            for owner, t in refs:
                if t.native or t.forward:
                    continue
                name = filters.class_name(t.alias or t.name)
                if name in ambiguous:
                    continue
                if scope.get(name) != t.qname:
                    return f"module {module}: class {cls.name!r} field {owner!r}: reference to {t.qname!r} renders as {name!r} which is bound to {scope.get(name)!r}"
            for inner in cls.inner:
                p = walk(inner)
                if p:
                    return p
            return None

        for cls in resolver.sorted_classes():
            p = walk(cls)
            if p:
                return p
    return None
