"""Event-level document trees: built concretely from pool instances through the seam, mutated symbolically, linearised
back into the iterparse-contract event stream that the real handlers consume (used by C09, C10, C11, C14, C15)."""

from __future__ import annotations

from harness import seam
from harness.models import *  # noqa: F401,F403
from harness.models import NS_A, NS_B


class Node:
    __slots__ = ("qname", "attrs", "text", "tail", "children", "ns")

    def __init__(self, qname, attrs=None, text=None, tail=None, children=None, ns=None):
        self.qname, self.attrs, self.text, self.tail = qname, dict(attrs or {}), text, tail
        self.children = list(children or [])
        self.ns = list(ns or [])  # [(prefix or None, uri)] declared on this element

    def copy(self):
        return Node(self.qname, dict(self.attrs), self.text, self.tail, [c.copy() for c in self.children], list(self.ns))


def from_calls(calls):
    """Recorded SAX calls -> Node tree (ignorable white space kept as text/tail)."""
    root = None
    stack, pending, last = [], [], None
    for c in calls:
        k = c[0]
        if k == "ns":
            pending.append((c[1] or None, c[2]))
        elif k == "start":
            n = Node(seam._q(c[1]), {seam._q(a): v for a, v in c[2].items()}, ns=pending)
            pending = []
            if stack:
                stack[-1].children.append(n)
            else:
                root = n
            stack.append(n)
            last = None
        elif k in ("chars", "ws"):
            if last is not None and stack:
                last.tail = (last.tail or "") + c[1]
            elif stack:
                stack[-1].text = (stack[-1].text or "") + c[1]
        elif k == "end":
            last = stack.pop()
    return root


def linearize(root):
    """Node tree -> [(event, payload)] following the iterparse contract (see seam.sax_to_context)."""
    out = []

    def walk(n, scope):
        scope = dict(scope)
        for p, u in n.ns:
            out.append(("start-ns", (p or "", u)))
            scope[p] = u
        el = seam.Elem(n.qname, dict(n.attrs), dict(scope))
        el.text, el.tail = n.text, n.tail
        out.append(("start", el))
        for c in n.children:
            el.children.append(walk(c, scope))
        out.append(("end", el))
        return el

    walk(root, {})
    return out


def nodes(root):
    """All nodes in document order."""
    out = [root]
    for c in root.children:
        out.extend(nodes(c))
    return out


def tree_for(obj, writer="native", ns_map=None, indent=None, context=None):
    from xsdata.formats.dataclass.serializers.config import SerializerConfig

    return from_calls(seam.to_sax(obj, writer, SerializerConfig(indent=indent), dict(ns_map) if ns_map else None, context))


# valid documents for the fault / injection / rewrite drivers: (name, class, instance), no wildcard-bearing classes unless stated
DOCS = {
    "basic": (Basic, Basic(i=5, s="x", b=True, num=-3)),
    "lists": (Lists, Lists(ints=[1, 2], strs=["a"], toks=[3, 4], atoks=["p", "q"])),
    "nillable": (Nillable, Nillable(i=None, s="t", many=[1, None])),
    "parenta": (ParentA, ParentA(item=Child(v=1, a="q"), items=[Child(v=2), Child(v=3)], other=4, local=5)),
    "nsattr": (NsAttr, NsAttr(a="v", x=1)),
    "sequential": (Sequential, Sequential(a=[1, 2], b=["x", "y"], c=7)),
    "wrapped": (Wrapped, Wrapped(ints=[1, 2], tail="t")),
    "holder": (Holder, Holder(b=Derived(x=1, y="q"), bs=[Base(x=2), Sibling(x=3, z=True)])),
    "enums": (Enums, Enums(c=Color.GREEN, n=Num.TWO, cs=[Color.RED], q=QEnum.A)),
    "qnames": (QNames, QNames(q=QName(NS_B, "x"), qa=QName(NS_A, "y"), qs=[QName(NS_B, "w")])),
    "unions": (Unions, Unions(u="abc", ub=True, us=[1, "x"])),
    "compound": (Compound, Compound(choice=[1, "s", Alpha(v=2), [True, False]])),
    "textattr": (TextAttr, TextAttr(value=7, a="k", q="z")),
    "defaults": (Defaults, Defaults(a=6, req=2, e="o")),
    "temporal": (Temporal, Temporal(d=XmlDate(2021, 2, 3), t=XmlTime(1, 2, 3), dec=Decimal("1.5"), f=2.5)),
    "wild": (Wild, Wild(known=1, any=AnyElement(qname="{urn:c}foo", text="t", attributes={"k": "v"}, children=[AnyElement(qname="bar", text="u", tail="w")]), attrs={"{urn:d}e": "f"})),
    "mixed": (Mixed, Mixed(content=["hello ", AnyElement(qname="b", text="bold", tail=" world")])),
    "reqtext": (ReqText, ReqText(value="q", a=1)),
    "wildknown": (Wild, Wild(known=2, any=Base(x=3))),
    "unionmodels": (UnionModels, UnionModels(item=Textual(value="n/a"), items=[Numeric(value=1)])),
    "dup": (Dup, Dup(code=1, label="l", alt_code="0042")),
    "anytyped": (AnyTyped, AnyTyped(v=5)),
    "holdernest": (Holder, Holder(b=DerivedNest(x=1, inner=Child(v=2, a="q")), bs=[DerivedNest(x=3, inner=Child(v=4))])),
    "anystr": (AnyTyped, AnyTyped(v="hello")),
    "wlderived": (WildList, WildList(items=[DerivedElement(qname="{urn:c}d", value=Alpha(v=3), type="alpha"), AnyElement(qname="{urn:c}a", text="1")])),
    "family": (Family, Family(members=[Base(x=1), Derived(x=2, y="q"), Sibling(x=3, z=True)])),
    "shapes": (ShapeHolder, ShapeHolder(s=CircleV1(r=1, v1=2))),
    "formats": (Formats, Formats(h=b"\x01\xff", b=b"abc", hs=[b"\x00", b"\x0a\x0b"])),
}

# further documents for the drivers that go through the REAL text path only (harness/textpath.py); not used by the seam drivers
from xsdata.models.datatype import XmlBase64Binary, XmlHexBinary  # noqa: E402

REAL_DOCS = {
    # anyType elements holding one value of each builtin family (written with its xsi:type, read back through StandardNode)
    "anyhex": (AnyTyped, AnyTyped(v=XmlHexBinary(b"\x01\xfe\xff"))), "anyb64": (AnyTyped, AnyTyped(v=XmlBase64Binary(b"hello"))),
    "anyqname": (AnyTyped, AnyTyped(v=QName("{urn:b}x"))), "anydate": (AnyTyped, AnyTyped(v=XmlDate(2020, 1, 2))), "anydec": (AnyTyped, AnyTyped(v=Decimal("1.50"))),
    "anybool": (AnyTyped, AnyTyped(v=True)), "anyfloat": (AnyTyped, AnyTyped(v=1.5)), "anydatetime": (AnyTyped, AnyTyped(v=XmlDateTime(2020, 1, 2, 3, 4, 5))),
    "anyduration": (AnyTyped, AnyTyped(v=XmlDuration("P1D"))), "anytime": (AnyTyped, AnyTyped(v=XmlTime(1, 2, 3))), "anyperiod": (AnyTyped, AnyTyped(v=XmlPeriod("--01"))),
    "anyneg": (AnyTyped, AnyTyped(v=-7)), "anybig": (AnyTyped, AnyTyped(v=2**40)),
    "unionboxes": (UnionBoxes, UnionBoxes(item=BoxB(inner=Child(v=1, a="q"), n=2, tag="t"), items=[BoxA(inner=Child(v=3, a="r"), label="x", tag="u"), BoxB(inner=Child(v=4, a="s"), n=5)])),
}
