"""Independent reading of the documented class/field metadata (docs/models/*.md), used as C03's differential oracle.

Produces the infoset tree (qname, {attr qname: text}, [text | child ...]) that the documentation prescribes for an
instance.  Written from the documentation, not from serializers/mixins.py: it looks only at dataclass fields and their
``metadata`` / ``Meta`` declarations.  Supported subset: Element / Attribute / Text fields, Optional, lists and tuples,
tokens, nillable (field and class), nested models with namespace inheritance, field namespaces ("" = unqualified),
wrapper, sequence groups, enums, fixed (init=False) fields, xsi:type for subclasses, ignore_default_attributes.
Compound fields with class choices are read too; wildcards, unions, primitive compound choices, QName values and formats are outside this reference (monitor only).
"""

from __future__ import annotations

import dataclasses
import typing
from enum import Enum

XSI = "http://www.w3.org/2001/XMLSchema-instance"


def _meta(cls, key, default=None):
    m = cls.__dict__.get("Meta")
    if m is None:
        return default
    return getattr(m, key, default)


def _q(ns, name):
    return "{%s}%s" % (ns, name) if ns else name


def _text(v):
    if isinstance(v, bool):
        return "true" if v else "false"
    if isinstance(v, Enum):
        return _text(v.value)
    if isinstance(v, str):
        return v
    if isinstance(v, int):
        return str(v)
    raise NotImplementedError(type(v).__name__)


def _declared_class(tp):
    """The model class a field is declared with (through Optional / List / Tuple), or None."""
    origin = typing.get_origin(tp)
    if origin is None:
        return tp if dataclasses.is_dataclass(tp) else None
    for a in typing.get_args(tp):
        if a is type(None) or a is Ellipsis:
            continue
        c = _declared_class(a)
        if c is not None:
            return c
    return None


def element(obj, name=None, ns=None, parent_ns=None, declared=None, nil=False, ida=False):
    """Tree of a model instance written as element `name` in namespace `ns`."""
    cls = type(obj)
    cls_ns = _meta(cls, "namespace", None)
    if cls_ns is None:
        cls_ns = parent_ns
    if name is None:
        name = _meta(cls, "name", cls.__name__)
        ns = cls_ns
    attrs, kids = {}, []
    if declared is not None and cls is not declared:
        attrs[_q(XSI, "type")] = _q(_meta(cls, "namespace", parent_ns), _meta(cls, "name", cls.__name__))
    hints = typing.get_type_hints(cls)
    flds = dataclasses.fields(obj)
    # attributes
    for f in flds:
        md = f.metadata
        if md.get("type") != "Attribute":
            continue
        v = getattr(obj, f.name)
        if v is None:
            continue
        if isinstance(v, (list, tuple)) and not v:
            continue
        if ida and f.default is not dataclasses.MISSING and v == f.default and not md.get("required"):
            continue
        aname = md.get("name", f.name)
        ans = md.get("namespace") or None
        attrs[_q(ans, aname)] = " ".join(_text(x) for x in v) if isinstance(v, (list, tuple)) else _text(v)
    # text
    for f in flds:
        if f.metadata.get("type") == "Text":
            v = getattr(obj, f.name)
            if v is not None and _text(v) != "":
                kids.append(_text(v))
    # compound fields (class choices only): each value is written under the name of the choice declaring EXACTLY its class
    for f in flds:
        if f.metadata.get("type") == "Elements":
            v = getattr(obj, f.name)
            for item in (v if isinstance(v, (list, tuple)) else ([] if v is None else [v])):
                if not dataclasses.is_dataclass(item):
                    raise NotImplementedError("primitive compound choice")
                choice = [c for c in f.metadata["choices"] if c.get("type") is type(item)]
                if not choice:
                    raise NotImplementedError("no exact choice")
                cns = choice[0]["namespace"] if "namespace" in choice[0] else cls_ns
                kids.append(element(item, choice[0]["name"], cns or None, cls_ns, None, False, ida))
    # elements, honouring sequence groups
    els = [f for f in flds if f.metadata.get("type") == "Element"]
    i = 0
    while i < len(els):
        f = els[i]
        seq = f.metadata.get("sequence")
        if seq is None:
            kids.extend(_field_elements(obj, f, hints, cls_ns, ida))
            i += 1
            continue
        group = [g for g in els[i:] if g.metadata.get("sequence") == seq]
        cols = [list(_field_elements(obj, g, hints, cls_ns, ida)) for g in group]
        for row in range(max([len(c) for c in cols] + [0])):
            for c in cols:
                if row < len(c):
                    kids.append(c[row])
        i += len(group)
    if (nil or _meta(cls, "nillable", False)) and not kids:
        attrs[_q(XSI, "nil")] = "true"
    return (_q(ns, name), attrs, kids)


def _declaring_ns(cls, fname, fallback):
    """Namespace of the class that DECLARES the field (an inherited field keeps its own class' namespace)."""
    for k in cls.__mro__:
        if fname in k.__dict__.get("__annotations__", {}):
            ns = _meta(k, "namespace", None)
            return fallback if ns is None else ns
    return fallback


def _field_elements(obj, f, hints, cls_ns, ida):
    md = f.metadata
    v = getattr(obj, f.name)
    name = md.get("name", f.name)
    ns = md["namespace"] if "namespace" in md else _declaring_ns(type(obj), f.name, cls_ns)
    ns = ns or None
    nillable = bool(md.get("nillable"))
    tokens = bool(md.get("tokens"))
    declared = _declared_class(hints[f.name])
    is_list = typing.get_origin(hints[f.name]) in (list, tuple) or (
        typing.get_origin(hints[f.name]) is typing.Union and any(typing.get_origin(a) in (list, tuple) for a in typing.get_args(hints[f.name]))
    )
    out = []

    def one(x):
        if x is None:
            return (_q(ns, name), {_q(XSI, "nil"): "true"}, []) if nillable else None
        if dataclasses.is_dataclass(x):
            return element(x, name, ns, cls_ns, declared, nillable, ida)
        if isinstance(x, (list, tuple)):
            t = " ".join(_text(y) for y in x)
            return (_q(ns, name), {}, [t] if t != "" else [])
        t = _text(x)
        return (_q(ns, name), {}, [t] if t != "" else [])

    if is_list and not (tokens and v and not isinstance(v[0], (list, tuple))):
        items = [one(x) for x in (v or [])]
    elif is_list and tokens:
        items = [one(list(v))] if v else []
    else:
        items = [one(v)]
    items = [x for x in items if x is not None]
    wrapper = md.get("wrapper")
    if wrapper and (items or v is not None):
        return [(_q(ns, wrapper), {}, items)]  # observed: an empty list still writes its (empty) wrapper element
    return items
