"""The SAX seam (DESIGN.md §3.5).

xsdata's own code ends at two Python-level seams: writers call a SAX ContentHandler, handlers consume
(event, element) pairs.  Between them sit XMLGenerator / lxml, the text, expat / libxml2 (C code, I/O).
This module
  * subclasses the REAL writers overriding only build_handler() (-> a recorder),
  * turns the recorded SAX calls into the event stream the ElementTree / lxml iterparse contract prescribes,
  * feeds it to the REAL XmlEventHandler.process_context / LxmlEventHandler.process_context.
validate() pushes a concrete corpus through both the seam and the real text path and compares parser-side
event records (translation validation of this stub; run by every check that uses the seam).
"""

from __future__ import annotations

import io
from xml.sax.handler import ContentHandler

from xsdata.formats.dataclass.context import XmlContext
from xsdata.formats.dataclass.parsers.bases import NodeParser, RecordParser
from xsdata.formats.dataclass.parsers.config import ParserConfig
from xsdata.formats.dataclass.parsers.handlers import LxmlEventHandler, XmlEventHandler
from xsdata.formats.dataclass.serializers.config import SerializerConfig
from xsdata.formats.dataclass.serializers.mixins import EventGenerator, EventHandler
from xsdata.formats.dataclass.serializers.writers import LxmlEventWriter, XmlEventWriter
from xsdata.formats.dataclass.serializers.writers.lxml import LxmlTreeBuilder
from xsdata.utils import namespaces


class Recorder(ContentHandler):
    def __init__(self):
        super().__init__()
        self.calls = []

    def startDocument(self):
        self.calls.append(("startdoc",))

    def endDocument(self):
        self.calls.append(("enddoc",))

    def startPrefixMapping(self, prefix, uri):
        self.calls.append(("ns", prefix, uri))

    def endPrefixMapping(self, prefix):
        self.calls.append(("endns", prefix))

    def startElementNS(self, name, qname, attrs):
        self.calls.append(("start", name, dict(attrs)))

    def endElementNS(self, name, qname):
        self.calls.append(("end", name))

    def characters(self, content):
        self.calls.append(("chars", content))

    def ignorableWhitespace(self, content):
        # XMLGenerator writes this content RAW: a character reference put there by the writer is read back by any parser as that character
        if content == "&#13;":
            self.calls.append(("chars", "\r"))
        else:
            self.calls.append(("ws", content))


class SeamNativeWriter(XmlEventWriter):
    def build_handler(self):
        _remember(self)
        return Recorder()


class SeamLxmlWriter(LxmlEventWriter):
    def build_handler(self):
        _remember(self)
        return Recorder()

    def write(self, events):
        # LxmlEventWriter.write = EventHandler.write + etree.indent/tostring (C, after the SAX stream)
        EventHandler.write(self, events)


class SeamTreeBuilder(LxmlTreeBuilder):
    def build_handler(self):
        return Recorder()

    def build(self, events):
        self.write(events)
        return self.handler


WRITERS = {"native": SeamNativeWriter, "lxml": SeamLxmlWriter, "tree": SeamTreeBuilder}
REAL_WRITERS = {"native": XmlEventWriter, "lxml": LxmlEventWriter}
HANDLERS = {"native": XmlEventHandler, "lxml": LxmlEventHandler}


_LAST = []


def _remember(writer):
    del _LAST[:]
    _LAST.append(writer)


def to_sax(obj, writer="native", config=None, ns_map=None, context=None):
    """Run the REAL public entry points - XmlSerializer.write with a seam writer class, TreeSerializer.render with the seam
    tree builder injected as `LxmlTreeBuilder` into its module - and return the recorded SAX calls."""
    from xsdata.formats.dataclass.serializers import tree as tree_mod
    from xsdata.formats.dataclass.serializers.tree import TreeSerializer
    from xsdata.formats.dataclass.serializers.xml import XmlSerializer

    config = config or SerializerConfig()
    context = context or XmlContext()
    if writer == "tree":
        saved = tree_mod.LxmlTreeBuilder
        tree_mod.LxmlTreeBuilder = SeamTreeBuilder
        try:
            rec = TreeSerializer(config=config, context=context).render(obj, ns_map)
        finally:
            tree_mod.LxmlTreeBuilder = saved
        return rec.calls
    XmlSerializer(config=config, context=context, writer=WRITERS[writer]).write(io.StringIO(), obj, ns_map)
    return _LAST[0].handler.calls


class Elem:
    """Duck-typed element as both etree.iterparse and lxml.iterparse hand them to the handlers."""

    __slots__ = ("tag", "attrib", "text", "tail", "nsmap", "children")

    def __init__(self, tag, attrib, nsmap):
        self.tag, self.attrib, self.nsmap = tag, attrib, nsmap
        self.text = None
        self.tail = None
        self.children = []

    def clear(self):
        pass

    def __iter__(self):
        return iter(self.children)


def _q(name):
    uri, local = name
    return "{%s}%s" % (uri, local) if uri else local


def sax_to_context(calls):
    """SAX calls -> [(event, payload)] following the iterparse contract.

    start-ns precedes the declaring element's start; text = characters before the first child,
    tail = characters after the end tag; lxml elements carry the full in-scope nsmap.
    Character data outside the root element is dropped (it is neither text nor tail of any element).
    """
    out, stack, pending, scopes, last = [], [], [], [{}], None
    for c in calls:
        kind = c[0]
        if kind == "ns":
            pending.append((c[1], c[2]))
        elif kind == "start":
            scope = dict(scopes[-1])
            for p, u in pending:
                out.append(("start-ns", (p or "", u)))
                scope[p or None] = u  # xmlns="" is reported as {None: ""} by both real handlers
            pending = []
            scopes.append(scope)
            el = Elem(_q(c[1]), {_q(k): v for k, v in c[2].items()}, dict(scope))
            if stack:
                stack[-1].children.append(el)
            out.append(("start", el))
            stack.append(el)
            last = None
        elif kind in ("chars", "ws"):
            if last is not None and stack:
                last.tail = (last.tail or "") + c[1]
            elif stack and last is None:
                stack[-1].text = (stack[-1].text or "") + c[1]
        elif kind == "end":
            el = stack.pop()
            scopes.pop()
            out.append(("end", el))
            last = el
    return out


class SeamNativeHandler(XmlEventHandler):
    """Real native handler; parse() forwards a seam event list to the inherited process_context."""

    def parse(self, source, ns_map):
        return self.process_context(iter(source), ns_map)


class SeamLxmlHandler(LxmlEventHandler):
    def parse(self, source, ns_map):
        return self.process_context(iter(source), ns_map)


SEAM_HANDLERS = {"native": SeamNativeHandler, "lxml": SeamLxmlHandler}


def parse_context(ctx, clazz, handler="native", config=None, context=None, parser=None):
    """Feed a seam event stream to the real handler + NodeParser (through NodeParser.parse)."""
    if parser is None:
        parser = NodeParser(config=config or ParserConfig(), context=context or XmlContext(), handler=SEAM_HANDLERS[handler])
    return parser.parse(list(ctx), clazz)


def roundtrip(obj, clazz=None, writer="native", handler="native", sconfig=None, pconfig=None, ns_map=None, context=None):
    context = context or XmlContext()
    calls = to_sax(obj, writer, sconfig, ns_map, context)
    return parse_context(sax_to_context(calls), clazz or type(obj), handler, pconfig, context)


# --------------------------------------------------------------------------- seam validation (concrete)
def _record_events_seam(obj, writer, handler, sconfig, ns_map):
    context = XmlContext()
    calls = to_sax(obj, writer, sconfig, ns_map, context)
    parser = RecordParser(context=context, handler=SEAM_HANDLERS[handler])
    parser.parse(sax_to_context(calls), type(obj))
    return _norm(parser.events)


def _record_events_real(obj, writer, handler, sconfig, ns_map):
    from xsdata.formats.dataclass.serializers import XmlSerializer

    context = XmlContext()
    text = XmlSerializer(context=context, config=sconfig, writer=REAL_WRITERS[writer]).render(obj, ns_map=ns_map)
    parser = RecordParser(context=context, handler=HANDLERS[handler])
    parser.from_string(text, type(obj))
    return _norm(parser.events)


def _norm(events):
    out = []
    for e in events:
        if e[0] == "start":
            out.append(("start", e[1], dict(e[2]), dict(e[3] or {})))
        elif e[0] == "end":
            out.append(("end", e[1], e[2], e[3]))
        else:
            out.append(("start-ns", e[1] or None, e[2]))
    return out


def validate(corpus, ns_maps=(None,), indents=(None,)):
    """Compare seam path and real text path on a concrete corpus; returns (n_compared, mismatches)."""
    n, bad = 0, []
    for obj in corpus:
        for writer in ("native", "lxml"):
            for handler in ("native", "lxml"):
                for ns_map in ns_maps:
                    for indent in indents:
                        if indent and writer == "lxml":
                            continue  # etree.indent happens in C after the SAX stream: outside the seam
                        cfg = SerializerConfig(indent=indent)
                        try:
                            a = _record_events_seam(obj, writer, handler, cfg, dict(ns_map) if ns_map else None)
                        except Exception as e:  # noqa: BLE001
                            a = ("EXC", type(e).__name__)
                        try:
                            b = _record_events_real(obj, writer, handler, cfg, dict(ns_map) if ns_map else None)
                        except Exception as e:  # noqa: BLE001
                            b = ("EXC", type(e).__name__)
                        n += 1
                        if a != b:
                            bad.append((type(obj).__name__, writer, handler, ns_map, indent, a, b))
    return n, bad


# --------------------------------------------------------------------------- namespace monitor + infoset tree
XSI = "http://www.w3.org/2001/XMLSchema-instance"


def monitor(calls, xmlgenerator=False):
    """Namespace well-formedness of a recorded SAX stream; returns a list of problems (empty = fine).

    * prefix mappings are balanced and no prefix is declared twice on one element, xml/xmlns are never bound
    * xsi:type values use a prefix that is in scope at that element
    * xmlgenerator=True (native writer; lxml's ElementTreeContentHandler assigns prefixes itself from Clark names):
      every element URI has a prefix (or the default namespace) bound to it in scope; an unqualified element never
      sits under a non-empty default namespace; every attribute URI has a NON-EMPTY prefix bound to it in scope;
      additionally emulates xml.sax.saxutils.XMLGenerator's own uri->prefix bookkeeping
      (documented pure-Python stdlib behaviour): the prefix it would write must, in the true scope, mean that URI.
    """
    problems = []
    scopes = [{}]
    gen_ctx = [{}]  # XMLGenerator: uri -> prefix
    pending = []
    open_prefixes = []
    closing = []
    depth = 0
    for c in calls:
        kind = c[0]
        if kind == "ns":
            p, u = c[1], c[2]
            if p in ("xml", "xmlns"):
                problems.append(f"reserved prefix {p!r} bound")
            if any(pp == p for pp, _ in pending):
                problems.append(f"prefix {p!r} declared twice on one element")
            if p and not u:
                problems.append(f"prefix {p!r} bound to the empty namespace")
            pending.append((p, u))
        elif kind == "start":
            scope = dict(scopes[-1])
            gctx = dict(gen_ctx[-1])
            for p, u in pending:
                scope[p or None] = u
                gctx[u] = p
            open_prefixes.append([p for p, _ in pending])
            pending = []
            scopes.append(scope)
            gen_ctx.append(gctx)
            depth += 1
            uri, local = c[1]
            if uri:
                if xmlgenerator and not any(v == uri for v in scope.values()):
                    problems.append(f"element {{{uri}}}{local}: no prefix in scope for its namespace")
                if xmlgenerator:
                    if uri not in gctx:
                        problems.append(f"element {{{uri}}}{local}: XMLGenerator has no prefix for its namespace (KeyError)")
                    elif scope.get(gctx[uri] or None) != uri:
                        problems.append(f"element {{{uri}}}{local}: XMLGenerator writes prefix {gctx[uri]!r}, which is bound to {scope.get(gctx[uri] or None)!r} here")
            elif xmlgenerator and scope.get(None):
                problems.append(f"unqualified element {local} under default namespace {scope.get(None)!r}")
            for (auri, alocal), aval in c[2].items():
                if auri:
                    if xmlgenerator and not any(k and v == auri for k, v in scope.items()):
                        problems.append(f"attribute {{{auri}}}{alocal}: no non-empty prefix in scope")
                    if xmlgenerator:
                        if auri not in gctx:
                            problems.append(f"attribute {{{auri}}}{alocal}: XMLGenerator has no prefix (KeyError)")
                        elif not gctx[auri] or scope.get(gctx[auri]) != auri:
                            problems.append(f"attribute {{{auri}}}{alocal}: XMLGenerator writes prefix {gctx[auri]!r} bound to {scope.get(gctx[auri] or None)!r}")
                if (auri, alocal) == (XSI, "type") and isinstance(aval, str):
                    pfx, _, _loc = aval.rpartition(":")
                    if pfx and pfx not in scope:
                        problems.append(f"xsi:type value {aval!r}: prefix not in scope")
                if not isinstance(aval, str):
                    problems.append(f"attribute {alocal}: non-string value {type(aval).__name__}")
        elif kind == "end":
            depth -= 1
            scopes.pop()
            gen_ctx.pop()
            if closing:
                problems.append(f"prefix mappings never ended: {closing}")
            closing = open_prefixes.pop() if open_prefixes else []
        elif kind == "endns":
            if c[1] in closing:
                closing.remove(c[1])
            else:
                problems.append(f"endPrefixMapping({c[1]!r}) does not match a mapping started on the element just closed")
        if kind in ("start", "enddoc") and closing:
            problems.append(f"prefix mappings never ended: {closing}")
            closing = []
    if depth != 0:
        problems.append("unbalanced elements")
    return problems


def _resolve_tokens(text, scope):
    out = []
    for tok in text.split(" "):
        pfx, sep, loc = tok.partition(":")
        if sep and (pfx or None) in scope and scope[pfx or None]:
            out.append("{%s}%s" % (scope[pfx], loc))
        elif not sep and tok and scope.get(None):
            out.append("{%s}%s" % (scope[None], tok))
        else:
            out.append(tok)
    return " ".join(out)


def tree_of(calls, keep_ws=False, qnames=()):
    """Infoset tree of a SAX stream: (qname, {attr qname: value}, [text | child ...]); xsi:type values are resolved to
    Clark names through the scope in force (so streams that differ only in prefix choice compare equal); text / attribute
    values of the element / attribute names listed in `qnames` (QName-typed by the model) are resolved the same way."""
    scopes = [{}]
    pending = []
    stack = [("#doc", {}, [])]
    for c in calls:
        kind = c[0]
        if kind == "ns":
            pending.append((c[1], c[2]))
        elif kind == "start":
            scope = dict(scopes[-1])
            for p, u in pending:
                scope[p or None] = u
            pending = []
            scopes.append(scope)
            attrs = {}
            for (auri, alocal), aval in c[2].items():
                if (auri, alocal) == (XSI, "type") and isinstance(aval, str):
                    pfx, _, loc = aval.rpartition(":")
                    ns = scope.get(pfx or None)
                    aval = "{%s}%s" % (ns, loc) if ns else loc
                attrs[_q((auri, alocal))] = aval
            for k in list(attrs):
                if k in qnames and isinstance(attrs[k], str):
                    attrs[k] = _resolve_tokens(attrs[k], {kk: vv for kk, vv in scope.items() if kk is not None})  # attributes: no default ns
            node = (_q(c[1]), attrs, [])
            stack[-1][2].append(node)
            stack.append(node)
        elif kind == "chars" or (kind == "ws" and keep_ws):
            kids = stack[-1][2]
            if kids and isinstance(kids[-1], str):
                kids[-1] = kids[-1] + c[1]
            else:
                kids.append(c[1])
        elif kind == "end":
            node = stack.pop()
            if node[0] in qnames:
                for i, kid in enumerate(node[2]):
                    if isinstance(kid, str):
                        node[2][i] = _resolve_tokens(kid, scopes[-1])
            scopes.pop()
    return stack[0][2]


# --------------------------------------------------------------------------- environment stub: the set of loaded model classes
def stub_loaded_classes(pool):
    """XmlContext.build_xsi_cache walks object.__subclasses__() (every class loaded in the interpreter, thousands under
    CrossHair).  Which classes are loaded is environment, not xsdata logic: the walk is replaced by one over the model pool
    (plus xsdata's own generic models).  Everything downstream (is_binding_model, build_class_meta, indexing) runs unchanged."""
    from xsdata.formats.dataclass.models import generics

    if getattr(XmlContext, "_xsv_stubbed", False):
        return
    XmlContext._xsv_stubbed = True
    orig = XmlContext.__dict__["get_subclasses"].__func__
    extra = [generics.AnyElement, generics.DerivedElement]

    def get_subclasses(cls, clazz):
        if clazz is object:
            return iter(list(pool) + extra)
        return orig(cls, clazz)

    XmlContext.get_subclasses = classmethod(get_subclasses)
