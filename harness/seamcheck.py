"""Concrete validation corpus for the SAX seam: every object is pushed through the seam AND through the real text path
(XmlSerializer.render -> XmlParser.from_string) for all writer x handler pairs, several user prefix maps and indentation;
the parser-side event records must be identical.  Run by every check (vlib/validate_models.py)."""

from decimal import Decimal

from harness import seam
from harness.models import *  # noqa: F401,F403
from harness.models import NS_A, NS_B

CORPUS = [
    Basic(i=5, s="x", b=True, num=-3), Basic(i=0), Basic(i=1, s=""), TextAttr(value=7, a="k", q="z"), TextStr(value="hi <&> there", a=1), ReqText(value="q", a=1),
    Lists(ints=[1, 2], strs=["a", "b c"], toks=[3, 4], atoks=["p", "q"]), TokenLists(rows=[[1, 2], [3]]), Frozen(x=1, items=(1, 2), toks=("a", "b")),
    Nillable(i=None, s="t", many=[1, None, 2]), NilParent(c=NilChild(v=None), after=2), NilParent(c=NilChild(v=4)),
    ParentA(item=Child(v=1, a="q"), items=[Child(v=2), Child(v=3)], other=4, local=5), ParentB(item=Child(v=9)), NsAttr(a="v", x=1),
    NsAttrParent(child=NsAttr(a="v", x=1), kids=[NsAttr(a="q")]), DerivedB(x=1, w=2), Dup(code=1, label="l", alt_code="0042"),
    UnionModels(item=Textual(value="n/a"), items=[Numeric(value=1)]),
    Unqualified(x=1, y="s", z=2), Sequential(a=[1, 2, 3], b=["x", "y"], c=7), Wrapped(ints=[1, 2], tail="t"),
    Formats(h=b"\x01\xff", b=b"abc", hs=[b"\x00", b"\x10\x20"]), Unions(u="abc", ub=True, us=[1, "x", 2]), Unions(u=12, ub=3),
    Enums(c=Color.GREEN, n=Num.TWO, cs=[Color.RED, Color.GREEN], q=QEnum.A),
    QNames(q=QName(NS_B, "x"), qa=QName(NS_A, "y"), qs=[QName(NS_B, "w")]),
    Compound(choice=[1, "s", Alpha(v=2), [True, False], 3]), CompoundSingle(one=Alpha(v=1)), CompoundSingle(one=5),
    Holder(b=Derived(x=1, y="q"), bs=[Base(x=2), Sibling(x=3, z=True)]),
    Wild(known=1, any=AnyElement(qname="{urn:c}foo", text="t", attributes={"k": "v"}, children=[AnyElement(qname="bar", text="u", tail="w")]), attrs={"{urn:d}e": "f", "g": "h"}),
    WildList(items=[AnyElement(qname="{urn:c}a", text="1"), AnyElement(qname="{urn:c}b")]),
    Mixed(content=["hello ", AnyElement(qname="b", text="bold", tail=" world")]),
    AnyTyped(v=5), AnyTyped(v="s"), AnyTyped(v=Alpha(v=3)), Defaults(a=5, req=1, e="dflt"), Defaults(a=6, req=2, e=None),
    Temporal(d=XmlDate(2021, 2, 3), t=XmlTime(1, 2, 3, 4000000, 60), dt=XmlDateTime(2021, 2, 3, 4, 5, 6), du=XmlDuration("P1Y"), p=XmlPeriod("--02"), dec=Decimal("1.50"), f=1e22),
]
MAPS = [None, {"": NS_A}, {"a": NS_A, "b": NS_B}, {"ns0": NS_B}, {"ns1": NS_A}, {"xsi": NS_A}, {None: NS_B, "xs": NS_A}]


def run():
    import warnings

    with warnings.catch_warnings():
        warnings.simplefilter("ignore")
        return seam.validate(CORPUS, MAPS, (None, "  "))
