"""Instance builders over the model pool: which fields are value-symbolic (focus) and which come from selector pools.

Every builder has the same signature (i0, i1, s0, s1, b0, k0, k1, k2); a builder touches only the arguments it needs
(CrossHair creates symbolic values lazily, untouched arguments cost nothing).  K = exclusive upper bounds of the selectors.
DOMAIN notes record which instances are *not representable* and therefore excluded by `valid`.
"""

from __future__ import annotations

from decimal import Decimal
from xml.etree.ElementTree import QName

from harness.models import *  # noqa: F401,F403
from harness.models import NS_A, NS_B

STRS = [None, "x", " x ", "<&>\"'", "a b"]
INTS = [0, -1, 7, 2**63, -(10**20)]


class Spec:
    def __init__(self, name, cls, build, K=(1, 1, 1), valid=None, note="", uses=""):
        self.name, self.cls, self.build, self.K, self.valid, self.note, self.uses = name, cls, build, K, valid, note, uses


from harness.common import known

_KNOWN_TOKEN_SPACE = known("C01-unicode-space")


_PYSPACE = (9, 10, 11, 12, 13, 28, 29, 30, 31, 32, 133, 160, 5760, 8232, 8233, 8239, 8287, 12288)  # + 8192..8202


def _is_xml_char(c):
    # any()/all() over lists collapse symbolic conditions into one solver decision instead of forking per comparison
    return any([c == 9, c == 10, c == 13, all([32 <= c, c <= 0xD7FF]), all([0xE000 <= c, c <= 0xFFFD]), c >= 0x10000])


def _is_pyspace(c):
    return any([c == x for x in _PYSPACE] + [all([8192 <= c, c <= 8202])])


def _is_xmlspace(c):
    return any([c == 32, c == 9, c == 10, c == 13])


def _xml(s):
    """Every code point is an XML 1.0 Char (the property is about values representable in XML 1.0)."""
    return all([_is_xml_char(ord(ch)) for ch in s])


def _tok_ok(s):
    """A token: non-empty XML chars, no XML white space.  While the known finding C01-unicode-space is listed, tokens
    containing other Unicode white space (which str.split() also splits on) are excluded as exactly its signature."""
    if len(s) == 0:
        return False
    cps = [ord(ch) for ch in s]
    if _KNOWN_TOKEN_SPACE:
        return all([all([_is_xml_char(c), not _is_xmlspace(c), not _is_pyspace(c)]) for c in cps])
    return all([all([_is_xml_char(c), not _is_xmlspace(c)]) for c in cps])


def _nonempty(s):
    return len(s) > 0 and _xml(s)


_KNOWN_NIL_EMPTY = known("C01-nillable-empty-string")
_KNOWN_REQ_TEXT = known("C01-required-text-empty")


def _nil_str(s):
    """Nillable string: '' comes back as None while the known finding C01-nillable-empty-string is listed."""
    return _nonempty(s) if _KNOWN_NIL_EMPTY else _xml(s)


def _req_text(s):
    return _nonempty(s) if _KNOWN_REQ_TEXT else _xml(s)


def _notblank(s):
    """Generic (wildcard) text: not white-space-only (C11 states that exception explicitly; while the known finding
    C01-unicode-space is listed, 'white space' means str.isspace(), i.e. exactly the finding's signature is excluded)."""
    if len(s) == 0:
        return False
    cps = [ord(ch) for ch in s]
    if _KNOWN_TOKEN_SPACE:
        return all([_is_xml_char(c) for c in cps]) and any([all([not _is_xmlspace(c), not _is_pyspace(c)]) for c in cps])
    return all([_is_xml_char(c) for c in cps]) and any([not _is_xmlspace(c) for c in cps])


SPECS = {}


def spec(name, cls, K=(1, 1, 1), valid=None, note="", uses=""):
    def deco(fn):
        SPECS[name] = Spec(name, cls, fn, K, valid, note, uses)
        return fn

    return deco


# ---- Basic
@spec("basic_int", Basic, K=(len(STRS), 2, 1), uses="i0 i1 b0 k0 k1")
def _(i0, i1, s0, s1, b0, k0, k1, k2):
    return Basic(i=i0, s=STRS[k0], b=b0, num=None if k1 == 0 else i1)


@spec("basic_str", Basic, K=(len(INTS), 1, 1), valid=lambda i0, i1, s0, s1, b0, k0, k1, k2: _xml(s0), uses="s0 k0")
def _(i0, i1, s0, s1, b0, k0, k1, k2):
    return Basic(i=INTS[k0], s=s0, b=False, num=None)


@spec("textattr", TextAttr, K=(3, 1, 1), valid=lambda i0, i1, s0, s1, b0, k0, k1, k2: _xml(s0), uses="i0 s0 k0")
def _(i0, i1, s0, s1, b0, k0, k1, k2):
    return TextAttr(value=i0, a=s0, q=[None, "q", ""][k0])


@spec("textstr", TextStr, K=(1, 1, 1), valid=lambda i0, i1, s0, s1, b0, k0, k1, k2: _xml(s0), uses="s0 i0")
def _(i0, i1, s0, s1, b0, k0, k1, k2):
    return TextStr(value=s0, a=i0)


@spec("reqtext", ReqText, K=(1, 1, 1), valid=lambda i0, i1, s0, s1, b0, k0, k1, k2: _req_text(s0), uses="s0 i0",
      note="domain: required text non-empty while the known finding C01-required-text-empty is listed")
def _(i0, i1, s0, s1, b0, k0, k1, k2):
    return ReqText(value=s0, a=i0)


# ---- lists / tokens / frozen
@spec("lists_int", Lists, K=(3, 3, 1), uses="i0 i1 k0 k1")
def _(i0, i1, s0, s1, b0, k0, k1, k2):
    return Lists(ints=[i0, i1][:k0], strs=[], toks=[i1, i0][:k1], atoks=[])


@spec("lists_str", Lists, K=(3, 3, 1), valid=lambda i0, i1, s0, s1, b0, k0, k1, k2: _xml(s0) and _tok_ok(s1), uses="s0 s1 k0 k1",
      note="domain: tokens non-empty and free of white space")
def _(i0, i1, s0, s1, b0, k0, k1, k2):
    return Lists(ints=[], strs=[s0, "y"][:k0], toks=[], atoks=[s1, "t"][:k1])


@spec("tokenlists", TokenLists, K=(3, 3, 1), uses="i0 i1 k0 k1")
def _(i0, i1, s0, s1, b0, k0, k1, k2):
    rows = [[i0, i1][: k1 if k1 else 1], [i1]][:k0]
    return TokenLists(rows=rows)


@spec("frozen", Frozen, K=(3, 3, 1), valid=lambda i0, i1, s0, s1, b0, k0, k1, k2: _tok_ok(s0), uses="i0 i1 s0 k0 k1")
def _(i0, i1, s0, s1, b0, k0, k1, k2):
    return Frozen(x=i0, items=(7, i0)[:k0], toks=(s0, "b")[:k1])


# ---- nillable
@spec("nillable", Nillable, K=(2, 4, 3), valid=lambda i0, i1, s0, s1, b0, k0, k1, k2: _nil_str(s0), uses="i0 s0 k0 k1 k2",
      note="domain: nillable string non-empty while the known finding C01-nillable-empty-string is listed")
def _(i0, i1, s0, s1, b0, k0, k1, k2):
    many = [[], [i0], [None], [i0, None, 3]][k1]
    return Nillable(i=None if k0 == 0 else i0, s=[None, s0, "t"][k2], many=many)


@spec("nilparent", NilParent, K=(3, 1, 1), uses="i0 i1 k0")
def _(i0, i1, s0, s1, b0, k0, k1, k2):
    c = [None, NilChild(v=None), NilChild(v=i0)][k0]
    return NilParent(c=c, after=i1)


# ---- namespaces
@spec("parenta", ParentA, K=(3, 2, 3), valid=lambda i0, i1, s0, s1, b0, k0, k1, k2: _xml(s0), uses="i0 s0 k0 k1 k2")
def _(i0, i1, s0, s1, b0, k0, k1, k2):
    item = [None, Child(v=i0, a=None), Child(v=1, a=s0)][k0]
    items = [Child(v=3), Child(v=2, a="z")][:k1]
    return ParentA(item=item, items=items, other=[None, 4, 5][k2], local=[None, 6, None][k2])


@spec("parentb", ParentB, K=(2, 1, 1), uses="i0 k0")
def _(i0, i1, s0, s1, b0, k0, k1, k2):
    return ParentB(item=[None, Child(v=i0, a="b")][k0])


@spec("nsattr", NsAttr, K=(2, 2, 1), valid=lambda i0, i1, s0, s1, b0, k0, k1, k2: _xml(s0), uses="i0 s0 k0 k1")
def _(i0, i1, s0, s1, b0, k0, k1, k2):
    return NsAttr(a=[None, s0][k0], x=[None, i0][k1])


@spec("unqualified", Unqualified, K=(3, 2, 1), valid=lambda i0, i1, s0, s1, b0, k0, k1, k2: _xml(s0), uses="i0 s0 k0 k1")
def _(i0, i1, s0, s1, b0, k0, k1, k2):
    return Unqualified(x=i0, y=[None, s0, "k"][k0], z=[None, 3][k1])


# ---- sequence / wrapper
@spec("sequential", Sequential, K=(4, 4, 2), valid=lambda i0, i1, s0, s1, b0, k0, k1, k2: _xml(s0), uses="i0 s0 k0 k1 k2")
def _(i0, i1, s0, s1, b0, k0, k1, k2):
    return Sequential(a=[i0, 2, 3][:k0], b=[s0, "y", "z"][:k1], c=[None, 9][k2])


@spec("wrapped", Wrapped, K=(3, 2, 1), uses="i0 i1 k0 k1",
      note="domain: wrapper list non-empty or absent alike (an empty wrapped list emits nothing)")
def _(i0, i1, s0, s1, b0, k0, k1, k2):
    return Wrapped(ints=[i0, i1][:k0], tail=[None, "t"][k1])


# ---- formats
_BYTES = [None, b"", b"\x00", b"\x01\xff", b"abc"]


@spec("formats", Formats, K=(len(_BYTES), len(_BYTES), 3), uses="k0 k1 k2", note="selector driven (bytes pool): base16/base64 go through C functions")
def _(i0, i1, s0, s1, b0, k0, k1, k2):
    return Formats(h=_BYTES[k0], b=_BYTES[k1], hs=[[], [b"\x00"], [b"\x10\x20", b"\xff"]][k2])


# ---- unions / enums / qnames
@spec("unions_int", Unions, K=(3, 3, 1), uses="i0 i1 b0 k0 k1")
def _(i0, i1, s0, s1, b0, k0, k1, k2):
    return Unions(u=i0, ub=[None, b0, i1][k0], us=[i1, "x", i0][:k1])


@spec("unions_str", Unions, K=(1, 1, 1), uses="s0",
      valid=lambda i0, i1, s0, s1, b0, k0, k1, k2: _nonempty(s0) and not _looks_int(s0),
      note="domain: a Union[int, str] string value must not itself be an int literal (it would legitimately come back as int)")
def _(i0, i1, s0, s1, b0, k0, k1, k2):
    return Unions(u=s0, ub=None, us=[])


def _looks_int(s):
    """Over-approximation without forking: every character could be part of an int literal."""
    return all([any([all([48 <= c, c <= 57]), c == 43, c == 45, c == 95, _is_xmlspace(c), _is_pyspace(c), c > 127]) for c in [ord(ch) for ch in s]])


@spec("enums", Enums, K=(2, 3, 3), uses="k0 k1 k2", note="selector driven")
def _(i0, i1, s0, s1, b0, k0, k1, k2):
    return Enums(c=[Color.RED, Color.GREEN][k0], n=[None, Num.ONE, Num.TWO][k1], cs=[Color.GREEN, Color.RED][:k2], q=[None, QEnum.A, None][k1])


_QN = [None, QName(NS_A, "x"), QName(NS_B, "y"), QName("http://www.w3.org/2001/XMLSchema", "int")]


@spec("qnames", QNames, K=(len(_QN), len(_QN), 3), uses="k0 k1 k2", note="selector driven; QNames without namespace excluded (known finding C05-qname-nons-default)")
def _(i0, i1, s0, s1, b0, k0, k1, k2):
    return QNames(q=_QN[k0], qa=_QN[k1], qs=[_QN[2], _QN[1]][:k2])


# ---- compound
@spec("compound", Compound, K=(5, 3, 1), valid=lambda i0, i1, s0, s1, b0, k0, k1, k2: _nonempty(s0) and not _looks_int(s0), uses="i0 s0 k0 k1")
def _(i0, i1, s0, s1, b0, k0, k1, k2):
    pool = [i0, s0, Alpha(v=i0), [True, False], 3]
    return Compound(choice=[pool[k0], pool[(k0 + 1) % 5], pool[(k0 + 3) % 5]][:k1])


@spec("compound_single", CompoundSingle, K=(3, 1, 1), uses="i0 k0")
def _(i0, i1, s0, s1, b0, k0, k1, k2):
    return CompoundSingle(one=[None, i0, Alpha(v=i0)][k0])


# ---- inheritance
@spec("holder", Holder, K=(4, 3, 1), valid=lambda i0, i1, s0, s1, b0, k0, k1, k2: _xml(s0), uses="i0 s0 b0 k0 k1")
def _(i0, i1, s0, s1, b0, k0, k1, k2):
    b = [None, Base(x=i0), Derived(x=i0, y=s0), Sibling(x=1, z=b0)][k0]
    return Holder(b=b, bs=[Derived(x=2, y=None), Sibling(x=i0, z=True)][:k1])


@spec("derived_root", Derived, K=(2, 1, 1), valid=lambda i0, i1, s0, s1, b0, k0, k1, k2: _xml(s0), uses="i0 s0 k0")
def _(i0, i1, s0, s1, b0, k0, k1, k2):
    return Derived(x=i0, y=[None, s0][k0])


@spec("derivedb", DerivedB, K=(2, 1, 1), uses="i0 i1 k0")
def _(i0, i1, s0, s1, b0, k0, k1, k2):
    return DerivedB(x=i0, w=[None, i1][k0])


@spec("dup", Dup, K=(3, 2, 1), valid=lambda i0, i1, s0, s1, b0, k0, k1, k2: _xml(s0), uses="i0 s0 k0 k1",
      note="second field of the same element name holds a string that may itself look like an int")
def _(i0, i1, s0, s1, b0, k0, k1, k2):
    return Dup(code=i0, label=[None, "l"][k1], alt_code=[None, s0, "0042"][k0])


@spec("unionmodels", UnionModels, K=(4, 3, 1), valid=lambda i0, i1, s0, s1, b0, k0, k1, k2: _xml(s0) and not _looks_int(s0), uses="i0 s0 k0 k1",
      note="domain: a Textual value must not itself be an int literal (it would legitimately bind to Numeric)")
def _(i0, i1, s0, s1, b0, k0, k1, k2):
    item = [None, Numeric(value=i0), Textual(value=s0), Textual(value="n/a")][k0]
    return UnionModels(item=item, items=[Textual(value="x"), Numeric(value=i0)][:k1])


@spec("renamed", RenamedUnion, K=(3, 3, 1), valid=lambda i0, i1, s0, s1, b0, k0, k1, k2: _xml(s0), uses="i0 s0 k0 k1",
      note="union of models whose python field names differ from their element / attribute names")
def _(i0, i1, s0, s1, b0, k0, k1, k2):
    item = [None, RenA(full_name=s0, kind="a"), RenB(item_count=i0)][k0]
    return RenamedUnion(item=item, items=[RenB(item_count=i0, kind="b"), RenA(full_name="x")][:k1])


@spec("nsattrparent", NsAttrParent, K=(3, 3, 1), valid=lambda i0, i1, s0, s1, b0, k0, k1, k2: _xml(s0), uses="i0 s0 k0 k1")
def _(i0, i1, s0, s1, b0, k0, k1, k2):
    return NsAttrParent(child=[None, NsAttr(a=s0, x=None), NsAttr(a="v", x=i0)][k0], kids=[NsAttr(a=s0), NsAttr(a=None, x=1)][:k1])


@spec("family", Family, K=(4, 4, 3), valid=lambda i0, i1, s0, s1, b0, k0, k1, k2: _xml(s0), uses="i0 s0 b0 k0 k1 k2")
def _(i0, i1, s0, s1, b0, k0, k1, k2):
    pool = [Base(x=i0), Derived(x=1, y=s0), Sibling(x=i0, z=b0), Derived(x=i0, y=None)]
    return Family(members=[pool[k0], pool[k1]][:k2])


# ---- wildcards
@spec("wild_text", Wild, K=(4, 1, 1), valid=lambda i0, i1, s0, s1, b0, k0, k1, k2: _notblank(s0), uses="s0 k0",
      note="domain: generic text / tail not white-space-only")
def _(i0, i1, s0, s1, b0, k0, k1, k2):
    anys = [None, AnyElement(qname="{urn:c}foo", text=s0), AnyElement(qname="bar", text="t", attributes={"k": s0}),
            AnyElement(qname="{urn:c}foo", text="t", children=[AnyElement(qname="{urn:a}known", text="u", tail=s0)])]
    return Wild(known=4, any=anys[k0], attrs={})


@spec("wild_attrs", Wild, K=(3, 2, 1), valid=lambda i0, i1, s0, s1, b0, k0, k1, k2: _xml(s0), uses="i0 s0 k0 k1")
def _(i0, i1, s0, s1, b0, k0, k1, k2):
    attrs = [{}, {"g": s0}, {"{urn:d}e": s0, "g": "h"}][k0]
    return Wild(known=i0, any=[None, AnyElement(qname="{urn:c}foo", text="t")][k1], attrs=attrs)


@spec("anytyped", AnyTyped, K=(5, 1, 1), valid=lambda i0, i1, s0, s1, b0, k0, k1, k2: _xml(s0), uses="i0 s0 b0 k0")
def _(i0, i1, s0, s1, b0, k0, k1, k2):
    return AnyTyped(v=[None, i0, s0, b0, Alpha(v=i0)][k0])


# ---- defaults
@spec("defaults", Defaults, K=(2, 1, 1), uses="i0 i1 k0", note="domain: e is not None (an absent element with a non-None default cannot be represented)")
def _(i0, i1, s0, s1, b0, k0, k1, k2):
    return Defaults(a=i0, req=i1, e=["dflt", "other"][k0])


# ---- temporal / decimal pool
_D = [None, XmlDate(2021, 2, 3), XmlDate(-45, 12, 31, -300)]
_T = [None, XmlTime(1, 2, 3, 4000000, 60), XmlTime(24, 0, 0)]
_DT = [None, XmlDateTime(2021, 2, 3, 4, 5, 6), XmlDateTime(1, 1, 1, 0, 0, 0, 1, 0)]
_MISC = [(None, None, None, None), (XmlDuration("P1Y"), XmlPeriod("--02"), Decimal("1.50"), 1e22), (XmlDuration("-PT0.5S"), XmlPeriod("2021-02Z"), Decimal("1E+2"), -0.0)]


@spec("temporal", Temporal, K=(3, 3, 3), uses="k0 k1 k2", note="selector driven (value pool); lexical correctness of these types is C05/C06's job")
def _(i0, i1, s0, s1, b0, k0, k1, k2):
    du, p, dec, f = _MISC[k2]
    return Temporal(d=_D[k0], t=_T[k1], dt=_DT[(k0 + k1) % 3], du=du, p=p, dec=dec, f=f)


NS_MAPS = [
    None,
    {"": NS_A},
    {"a": NS_A, "b": NS_B},
    {"ns0": NS_B},
    {"ns1": NS_A, "ns0": "urn:unused"},
    {"xsi": NS_A},
    {"p": NS_A, "q": NS_A},
    {None: NS_B, "xs": NS_A},
    {"ns1": NS_A},
    {"ns0": NS_A, "ns2": NS_B},
    {"p": NS_A, "": NS_A},
]
