"""The REAL text path in front of the seam: documents as text / bytes through lxml and expat, as configured by the two handlers.

The seam checks (C01, C03, C08-C11, C14, C15) start at the handlers' `process_context`; what the handlers ask of the C parsers
(comment / processing-instruction removal, recovery, the end of input, source kinds) is invisible to them.  The drivers built
on this module are selector driven: the document and the kind of rewrite / fault / source are the partition, the POSITION the
rewrite applies to is a symbolic integer bisected by the solver over every applicable position of the document; each path
then runs the real parser concretely (the C libraries realise everything anyway).
"""

from __future__ import annotations

import io
import os
import tempfile

_TEXTS = {}


def doc_names():
    from harness import mutate

    return sorted(mutate.DOCS)


def doc_text(name):
    """Serialized text of a pool document (real XmlSerializer, fresh context, no declaration)."""
    if name not in _TEXTS:
        from harness import mutate
        from xsdata.formats.dataclass.context import XmlContext
        from xsdata.formats.dataclass.serializers import XmlSerializer
        from xsdata.formats.dataclass.serializers.config import SerializerConfig

        cls, obj = mutate.DOCS[name]
        _TEXTS[name] = (cls, XmlSerializer(context=XmlContext(), config=SerializerConfig(xml_declaration=False)).render(obj))
    return _TEXTS[name]


def handlers():
    from xsdata.formats.dataclass.parsers.handlers import LxmlEventHandler, XmlEventHandler

    return {"lxml": LxmlEventHandler, "native": XmlEventHandler}


def parse(data, cls, handler, config=None):
    """Outcome of parsing bytes / str with a fresh parser: ("ok", obj) | ("err", exception type name)."""
    from xsdata.formats.dataclass.context import XmlContext
    from xsdata.formats.dataclass.parsers import XmlParser
    from xsdata.formats.dataclass.parsers.config import ParserConfig

    p = XmlParser(context=XmlContext(), handler=handlers()[handler], config=config or ParserConfig())
    if isinstance(data, str):
        return ("ok", p.from_string(data, cls))
    return ("ok", p.from_bytes(data, cls))


# ------------------------------------------------------------------------------------------------------------ scanning
def scan(text):
    """Classify every index of a (comment / CDATA / PI free, as our serializer writes it) document:
    content[i] True  <=> inserting markup AT index i (before text[i]) lands in character data / between tags inside or around
                          the root (never inside a tag, never inside an entity reference);
    plain[i]   True  <=> text[i] is a literal character of character data (not markup, not part of a reference);
    attr[i]    True  <=> text[i] is a literal character inside an attribute value (not the quotes, not part of a reference);
    tag_ends        indices of the '>' (or of the '/' of '/>') that close start tags."""
    n = len(text)
    content, plain, attr, tag_ends = [False] * (n + 1), [False] * n, [False] * n, []
    i, in_tag, quote, in_ref = 0, False, None, False
    while i < n:
        ch = text[i]
        if not in_tag:
            if ch == "<":
                content[i] = not in_ref
                in_tag = True
                is_end = text[i + 1 : i + 2] == "/"
                start_tag = not is_end
            elif ch == "&":
                content[i] = True
                in_ref = True
            elif in_ref:
                if ch == ";":
                    in_ref = False
            else:
                content[i] = True
                plain[i] = True
        else:
            if quote:
                if ch == quote:
                    quote = None
                elif ch == "&":
                    in_ref = True
                elif in_ref:
                    if ch == ";":
                        in_ref = False
                else:
                    attr[i] = True
            elif ch in "\"'":
                quote = ch
            elif ch == ">":
                in_tag = False
                if start_tag:
                    tag_ends.append(i - 1 if text[i - 1] == "/" else i)
        i += 1
    content[n] = True
    return content, plain, attr, tag_ends


def positions(flags):
    return [i for i, f in enumerate(flags) if f]


# ------------------------------------------------------------------------------------------------------------ rewrites
REWRITES = ["comment", "pi", "charref", "attr_charref", "cdata", "tag_space", "quotes"]


def n_positions(name, kind):
    _cls, text = doc_text(name)
    content, plain, attr, tag_ends = scan(text)
    if kind in ("comment", "pi"):
        return len(positions(content))
    if kind in ("charref", "cdata"):
        return len(positions(plain))
    if kind == "attr_charref":
        return len(positions(attr))
    if kind == "tag_space":
        return len(tag_ends)
    if kind == "quotes":
        return 1
    raise ValueError(kind)


def rewrite(name, kind, k):
    """The document with the k-th applicable position rewritten; None where the rewrite does not apply."""
    _cls, text = doc_text(name)
    content, plain, attr, tag_ends = scan(text)
    if kind in ("comment", "pi"):
        i = positions(content)[k]
        return text[:i] + ("<!-- c -->" if kind == "comment" else "<?pi x?>") + text[i:]
    if kind == "charref":
        i = positions(plain)[k]
        return text[:i] + "&#x%X;" % ord(text[i]) + text[i + 1 :]
    if kind == "attr_charref":
        i = positions(attr)[k]
        return text[:i] + "&#%d;" % ord(text[i]) + text[i + 1 :]
    if kind == "cdata":
        # the maximal run of literal characters around the k-th plain position becomes a CDATA section
        i = positions(plain)[k]
        lo = i
        while lo > 0 and plain[lo - 1]:
            lo -= 1
        hi = i
        while hi + 1 < len(text) and plain[hi + 1]:
            hi += 1
        run = text[lo : hi + 1]
        if "]]>" in run:
            return None
        return text[:lo] + "<![CDATA[" + run + "]]>" + text[hi + 1 :]
    if kind == "tag_space":
        i = tag_ends[k]
        return text[:i] + "\n " + text[i:]
    if kind == "quotes":
        out, in_tag, quote = [], False, None
        for ch in text:
            if not in_tag:
                in_tag = ch == "<"
                out.append(ch)
            elif quote:
                if ch == quote:
                    quote = None
                    out.append("'")
                elif ch == "'":
                    out.append("&apos;")
                else:
                    out.append(ch)
            elif ch == '"':
                quote = ch
                out.append("'")
            else:
                in_tag = ch != ">"
                out.append(ch)
        return "".join(out)
    raise ValueError(kind)


ENCODINGS = ["utf-8", "utf-16", "iso-8859-1", "us-ascii", "utf-8-sig"]  # what expat itself supports (and lxml too)


def encoded(name, enc):
    """Bytes of the document in another encoding with a matching declaration; characters the encoding lacks become references."""
    _cls, text = doc_text(name)
    decl = {"utf-8-sig": "UTF-8"}.get(enc, enc.upper())
    body = '<?xml version="1.0" encoding="%s"?>\n%s' % (decl, text)
    if enc in ("iso-8859-1", "us-ascii"):
        return body.encode(enc, errors="xmlcharrefreplace")
    return body.encode(enc)


# ------------------------------------------------------------------------------------------------------------ sources
SOURCES = ["bytes", "str", "path", "fileobj", "textio", "lxml_tree", "lxml_element", "et_tree", "et_element"]


def parse_source(name, source, handler):
    """Parse the pool document supplied as `source` kind; None where the handler does not take that kind."""
    import xml.etree.ElementTree as ET

    from lxml import etree
    from xsdata.formats.dataclass.context import XmlContext
    from xsdata.formats.dataclass.parsers import XmlParser

    cls, text = doc_text(name)
    data = text.encode()
    p = XmlParser(context=XmlContext(), handler=handlers()[handler])
    if source == "bytes":
        return p.from_bytes(data, cls)
    if source == "str":
        return p.from_string(text, cls)
    if source == "fileobj":
        return p.parse(io.BytesIO(data), cls)
    if source == "textio":
        return p.parse(io.StringIO(text), cls) if handler == "native" else None  # lxml's iterparse wants a binary stream
    if source == "path":
        fd, path = tempfile.mkstemp(suffix=".xml")
        try:
            with os.fdopen(fd, "wb") as f:
                f.write(data)
            import pathlib

            return p.from_path(pathlib.Path(path), cls)
        finally:
            os.unlink(path)
    if source.startswith("lxml_"):
        if handler != "lxml":
            return None
        root = etree.fromstring(data)
        return p.parse(root.getroottree() if source == "lxml_tree" else root, cls)
    if source.startswith("et_"):
        if handler != "native":
            return None
        root = ET.fromstring(data)
        return p.parse(ET.ElementTree(root) if source == "et_tree" else root, cls)
    raise ValueError(source)


# ------------------------------------------------------------------------------------------------------------ faults
JUNK = ["<x/>", "x", "</x>", "<", "&", "<!-- c", "\x00", "]]>", "<?pi"]
FLIPS = [0x3C, 0x26, 0x00, 0xFF, 0x22, 0x3E, 0x78, 0x20]


def well_formed(data):
    """Independent oracle: expat itself, driven directly (not through ElementTree / iterparse)."""
    from xml.parsers import expat

    p = expat.ParserCreate(namespace_separator="}")
    try:
        p.Parse(data, True)
    except expat.ExpatError:
        return False
    except ValueError:
        return False
    return True


def fault(name, kind, k, j=0):
    """Bytes of the pool document with one text-level fault: truncate at offset k | flip byte k to FLIPS[j] | append JUNK[j] after the root."""
    _cls, text = doc_text(name)
    data = text.encode()
    if kind == "truncate":
        return data[:k]
    if kind == "flip":
        return data[:k] + bytes([FLIPS[j]]) + data[k + 1 :]
    if kind == "junk":
        return data + JUNK[j].encode()
    raise ValueError(kind)
