"""The REAL text path in front of the seam: documents as text / bytes through lxml and expat, as configured by the two handlers.

The seam checks (C01, C03, C08-C11, C14, C15) start at the handlers' `process_context`; what the handlers ask of the C parsers
(comment / processing-instruction removal, recovery, the end of input, source kinds) is invisible to them.  The drivers built
on this module are selector driven: the document and the kind of rewrite / fault / source are the partition, the POSITION the
rewrite applies to is a symbolic integer bisected by the solver over every applicable position of the document; each path
then runs the real parser concretely (the C libraries realise everything anyway).
"""

from __future__ import annotations

import io
import os
import tempfile

_TEXTS = {}


def doc_names():
    from harness import mutate

    return sorted(mutate.DOCS) + sorted(mutate.REAL_DOCS)


def doc_text(name):
    """Serialized text of a pool document (real XmlSerializer, fresh context, no declaration)."""
    if name not in _TEXTS:
        from harness import mutate
        from xsdata.formats.dataclass.context import XmlContext
        from xsdata.formats.dataclass.serializers import XmlSerializer
        from xsdata.formats.dataclass.serializers.config import SerializerConfig

        cls, obj = doc_object(name)
        _TEXTS[name] = (cls, XmlSerializer(context=XmlContext(), config=SerializerConfig(xml_declaration=False)).render(obj))
    return _TEXTS[name]


def doc_object(name):
    from harness import mutate

    return mutate.DOCS[name] if name in mutate.DOCS else mutate.REAL_DOCS[name]


def handlers():
    from xsdata.formats.dataclass.parsers.handlers import LxmlEventHandler, XmlEventHandler

    return {"lxml": LxmlEventHandler, "native": XmlEventHandler}


def parse(data, cls, handler, config=None):
    """Outcome of parsing bytes / str with a fresh parser: ("ok", obj) | ("err", exception type name)."""
    from xsdata.formats.dataclass.context import XmlContext
    from xsdata.formats.dataclass.parsers import XmlParser
    from xsdata.formats.dataclass.parsers.config import ParserConfig

    p = XmlParser(context=XmlContext(), handler=handlers()[handler], config=config or ParserConfig())
    if isinstance(data, str):
        return ("ok", p.from_string(data, cls))
    return ("ok", p.from_bytes(data, cls))


# ------------------------------------------------------------------------------------------------------------ scanning
def scan(text):
    """Classify every index of a (comment / CDATA / PI free, as our serializer writes it) document:
    content[i] True  <=> inserting markup AT index i (before text[i]) lands in character data / between tags inside or around
                          the root (never inside a tag, never inside an entity reference);
    plain[i]   True  <=> text[i] is a literal character of character data (not markup, not part of a reference);
    attr[i]    True  <=> text[i] is a literal character inside an attribute value (not the quotes, not part of a reference);
    tag_ends        indices of the '>' (or of the '/' of '/>') that close start tags."""
    n = len(text)
    content, plain, attr, tag_ends = [False] * (n + 1), [False] * n, [False] * n, []
    i, in_tag, quote, in_ref = 0, False, None, False
    while i < n:
        ch = text[i]
        if not in_tag:
            if ch == "<":
                content[i] = not in_ref
                in_tag = True
                is_end = text[i + 1 : i + 2] == "/"
                start_tag = not is_end
            elif ch == "&":
                content[i] = True
                in_ref = True
            elif in_ref:
                if ch == ";":
                    in_ref = False
            else:
                content[i] = True
                plain[i] = True
        else:
            if quote:
                if ch == quote:
                    quote = None
                elif ch == "&":
                    in_ref = True
                elif in_ref:
                    if ch == ";":
                        in_ref = False
                else:
                    attr[i] = True
            elif ch in "\"'":
                quote = ch
            elif ch == ">":
                in_tag = False
                if start_tag:
                    tag_ends.append(i - 1 if text[i - 1] == "/" else i)
        i += 1
    content[n] = True
    return content, plain, attr, tag_ends


def positions(flags):
    return [i for i, f in enumerate(flags) if f]


# ------------------------------------------------------------------------------------------------------------ rewrites
REWRITES = ["comment", "pi", "charref", "attr_charref", "cdata", "tag_space", "quotes"]


def n_positions(name, kind):
    _cls, text = doc_text(name)
    content, plain, attr, tag_ends = scan(text)
    if kind in ("comment", "pi"):
        return len(positions(content))
    if kind in ("charref", "cdata"):
        return len(positions(plain))
    if kind == "attr_charref":
        return len(positions(attr))
    if kind == "tag_space":
        return len(tag_ends)
    if kind == "quotes":
        return 1
    raise ValueError(kind)


def rewrite(name, kind, k):
    """The document with the k-th applicable position rewritten; None where the rewrite does not apply."""
    _cls, text = doc_text(name)
    content, plain, attr, tag_ends = scan(text)
    if kind in ("comment", "pi"):
        i = positions(content)[k]
        return text[:i] + ("<!-- c -->" if kind == "comment" else "<?pi x?>") + text[i:]
    if kind == "charref":
        i = positions(plain)[k]
        return text[:i] + "&#x%X;" % ord(text[i]) + text[i + 1 :]
    if kind == "attr_charref":
        i = positions(attr)[k]
        return text[:i] + "&#%d;" % ord(text[i]) + text[i + 1 :]
    if kind == "cdata":
        # the maximal run of literal characters around the k-th plain position becomes a CDATA section
        i = positions(plain)[k]
        lo = i
        while lo > 0 and plain[lo - 1]:
            lo -= 1
        hi = i
        while hi + 1 < len(text) and plain[hi + 1]:
            hi += 1
        run = text[lo : hi + 1]
        if "]]>" in run:
            return None
        return text[:lo] + "<![CDATA[" + run + "]]>" + text[hi + 1 :]
    if kind == "tag_space":
        i = tag_ends[k]
        return text[:i] + "\n " + text[i:]
    if kind == "quotes":
        out, in_tag, quote = [], False, None
        for ch in text:
            if not in_tag:
                in_tag = ch == "<"
                out.append(ch)
            elif quote:
                if ch == quote:
                    quote = None
                    out.append("'")
                elif ch == "'":
                    out.append("&apos;")
                else:
                    out.append(ch)
            elif ch == '"':
                quote = ch
                out.append("'")
            else:
                in_tag = ch != ">"
                out.append(ch)
        return "".join(out)
    raise ValueError(kind)


ENCODINGS = ["utf-8", "utf-16", "iso-8859-1", "us-ascii", "utf-8-sig"]  # what expat itself supports (and lxml too)


def encoded(name, enc):
    """Bytes of the document in another encoding with a matching declaration; characters the encoding lacks become references."""
    _cls, text = doc_text(name)
    decl = {"utf-8-sig": "UTF-8"}.get(enc, enc.upper())
    body = '<?xml version="1.0" encoding="%s"?>\n%s' % (decl, text)
    if enc in ("iso-8859-1", "us-ascii"):
        return body.encode(enc, errors="xmlcharrefreplace")
    return body.encode(enc)


# ------------------------------------------------------------------------------------------------------------ sources
SOURCES = ["bytes", "str", "path", "fileobj", "textio", "lxml_tree", "lxml_element", "et_tree", "et_element"]


def parse_source(name, source, handler):
    """Parse the pool document supplied as `source` kind; None where the handler does not take that kind."""
    import xml.etree.ElementTree as ET

    from lxml import etree
    from xsdata.formats.dataclass.context import XmlContext
    from xsdata.formats.dataclass.parsers import XmlParser

    cls, text = doc_text(name)
    data = text.encode()
    p = XmlParser(context=XmlContext(), handler=handlers()[handler])
    if source == "bytes":
        return p.from_bytes(data, cls)
    if source == "str":
        return p.from_string(text, cls)
    if source == "fileobj":
        return p.parse(io.BytesIO(data), cls)
    if source == "textio":
        return p.parse(io.StringIO(text), cls) if handler == "native" else None  # lxml's iterparse wants a binary stream
    if source == "path":
        fd, path = tempfile.mkstemp(suffix=".xml")
        try:
            with os.fdopen(fd, "wb") as f:
                f.write(data)
            import pathlib

            return p.from_path(pathlib.Path(path), cls)
        finally:
            os.unlink(path)
    if source.startswith("lxml_"):
        if handler != "lxml":
            return None
        root = etree.fromstring(data)
        return p.parse(root.getroottree() if source == "lxml_tree" else root, cls)
    if source.startswith("et_"):
        if handler != "native":
            return None
        root = ET.fromstring(data)
        return p.parse(ET.ElementTree(root) if source == "et_tree" else root, cls)
    raise ValueError(source)


# ------------------------------------------------------------------------------------------------------------ faults
JUNK = ["<x/>", "x", "</x>", "<", "&", "<!-- c", "\x00", "]]>", "<?pi"]
FLIPS = [0x3C, 0x26, 0x00, 0xFF, 0x22, 0x3E, 0x78, 0x20]


def well_formed(data):
    """Independent oracle: expat itself, driven directly (not through ElementTree / iterparse)."""
    from xml.parsers import expat

    p = expat.ParserCreate(namespace_separator="}")
    try:
        p.Parse(data, True)
    except expat.ExpatError:
        return False
    except ValueError:
        return False
    return True


def fault(name, kind, k, j=0):
    """Bytes of the pool document with one text-level fault: truncate at offset k | flip byte k to FLIPS[j] | append JUNK[j] after the root."""
    _cls, text = doc_text(name)
    data = text.encode()
    if kind == "truncate":
        return data[:k]
    if kind == "flip":
        return data[:k] + bytes([FLIPS[j]]) + data[k + 1 :]
    if kind == "junk":
        return data + JUNK[j].encode()
    raise ValueError(kind)


# ------------------------------------------------------------------------------------------------------------ writing side
# code points standing for the classes that XML 1.0 text handling distinguishes (Char production, line ends, markup, attribute
# normalisation, supplementary planes), plus ']' for "]]>"
CPS = [0x09, 0x0A, 0x0D, 0x20, 0x22, 0x26, 0x27, 0x3C, 0x3E, 0x5D, 0x61, 0x85, 0xA0, 0xE9, 0x2028, 0xD7FF, 0xE000, 0xFFFD, 0x1F600, 0x10FFFF,
       0x00, 0x08, 0x0B, 0x1F, 0x7F, 0xD800, 0xDFFF, 0xFFFE, 0xFFFF]
PLACES = ["element", "attribute", "ns_attribute", "text", "token", "wild_text", "wild_tail", "wild_attr", "mixed_text", "anytype"]


def xml_char(cp):
    return cp in (0x9, 0xA, 0xD) or 0x20 <= cp <= 0xD7FF or 0xE000 <= cp <= 0xFFFD or 0x10000 <= cp <= 0x10FFFF


def place_object(place, s):
    """(class, instance, getter) with the string s at the given place; None where the place cannot hold s."""
    from harness import models as m
    from xsdata.formats.dataclass.models.generics import AnyElement

    if place == "element":
        return m.Basic, m.Basic(i=1, s=s), lambda o: o.s
    if place == "attribute":
        return m.TextAttr, m.TextAttr(value=1, a=s), lambda o: o.a
    if place == "ns_attribute":
        return m.TextAttr, m.TextAttr(value=1, q=s), lambda o: o.q
    if place == "text":
        return m.TextStr, m.TextStr(value=s), lambda o: o.value
    if place == "token":
        if any(ch.isspace() for ch in s) or s == "":
            return None  # a token cannot contain white space
        return m.Lists, m.Lists(ints=[1], atoks=["p", s]), lambda o: o.atoks[-1] if o.atoks else None
    if place == "wild_text":
        return m.Wild, m.Wild(known=1, any=AnyElement(qname="{urn:c}f", text=s)), lambda o: o.any.text
    if place == "wild_tail":
        return m.Mixed, m.Mixed(content=["t", AnyElement(qname="b", text="u", tail=s)]), lambda o: o.content[-1].tail
    if place == "wild_attr":
        return m.Wild, m.Wild(known=1, any=AnyElement(qname="{urn:c}f", text="t", attributes={"k": s})), lambda o: o.any.attributes.get("k")
    if place == "mixed_text":
        return m.Mixed, m.Mixed(content=[s, AnyElement(qname="b", text="u")]), lambda o: o.content[0]
    if place == "anytype":
        return m.AnyTyped, m.AnyTyped(v=s), lambda o: o.v
    raise ValueError(place)


def writers():
    from xsdata.formats.dataclass.serializers.writers import LxmlEventWriter, XmlEventWriter

    return {"lxml": LxmlEventWriter, "native": XmlEventWriter}


def render(obj, writer):
    from xsdata.formats.dataclass.context import XmlContext
    from xsdata.formats.dataclass.serializers import XmlSerializer

    return XmlSerializer(context=XmlContext(), writer=writers()[writer]).render(obj)


def _read_place(place, data):
    """The string at `place` as read by ElementTree alone (independent of xsdata's parser)."""
    import xml.etree.ElementTree as ET

    root = ET.fromstring(data)
    if place == "element":
        return root.find("{urn:a}s").text
    if place == "attribute":
        return root.get("a")
    if place == "ns_attribute":
        return root.get("{urn:b}q")
    if place in ("text", "mixed_text"):
        return root.text
    if place == "token":
        return root.get("atoks").split(" ")[-1]
    if place == "wild_text":
        return root.find("{urn:c}f").text
    if place == "wild_tail":
        return root.find("b").tail
    if place == "wild_attr":
        return root.find("{urn:c}f").get("k")
    if place == "anytype":
        return root.find("v").text
    raise ValueError(place)


def _ws_only(s):
    return s.strip() == "" or all(ch in " \t\r\n" for ch in s)


def write_check(prop, place, c0, c1, known_nonxml=False):
    """One string (one or two code points of CPS; c1 == len(CPS) means a single one) at one place through the real writers and
    parsers.  prop selects the oracle: C01 round trip | C03 well-formed + independent reading | C08 writers agree."""
    s = chr(CPS[c0]) + (chr(CPS[c1]) if c1 < len(CPS) else "")
    po = place_object(place, s)
    if po is None:
        return {"ok": True, "skipped": "the place cannot hold this string"}
    cls, obj, get = po
    rep = all(xml_char(ord(ch)) for ch in s)
    if place in ("mixed_text", "wild_tail") and _ws_only(s):
        return {"ok": True, "skipped": "white-space-only text next to a child element (excepted by C11; Unicode-space-only text is the listed finding C01-unicode-space)"}
    out = {"ok": True, "string": repr(s), "place": place, "representable_in_xml_1_0": rep}
    docs = {}
    for w in ("native", "lxml"):
        try:
            docs[w] = ("ok", render(obj, w).encode())
        except Exception as e:  # noqa: BLE001
            docs[w] = ("raised", type(e).__name__)
        out[w + "_writer"] = repr(docs[w])[:300]
    if prop == "C03":
        for w in ("native", "lxml"):
            if docs[w][0] == "raised":
                if rep:
                    out["ok"] = False
                    out["problem"] = f"{w} writer refuses a representable string"
                continue
            if not rep and w == "native" and known_nonxml:
                continue  # exactly the signature of the listed known finding
            if not well_formed(docs[w][1]):
                out["ok"] = False
                out["problem"] = f"{w} writer output is not well-formed"
            elif rep and _read_place(place, docs[w][1]) != s:
                out["ok"] = False
                out["problem"] = f"{w} writer: ElementTree reads {_read_place(place, docs[w][1])!r} at the place"
        return out
    if not rep:
        return {"ok": True, "skipped": "not representable in XML 1.0 (C03's subject)"}
    if prop == "C01":
        for w in ("native", "lxml"):
            if docs[w][0] != "ok":
                out["ok"] = False
                out["problem"] = f"{w} writer raised for a representable string"
                continue
            for h in ("lxml", "native"):
                try:
                    back = parse(docs[w][1], cls, h)[1]
                except Exception as e:  # noqa: BLE001
                    back = "raised " + type(e).__name__
                if back != obj:
                    out["ok"] = False
                    out["problem"] = f"{w} writer -> {h} handler: {repr(get(back) if not isinstance(back, str) else back)[:120]} instead of {s!r}"
        return out
    if prop == "C08":
        res = {}
        for w in ("native", "lxml"):
            if docs[w][0] != "ok":
                res[w] = docs[w]
                continue
            try:
                res[w] = ("ok", parse(docs[w][1], cls, "native")[1])
            except Exception as e:  # noqa: BLE001
                res[w] = ("parse raised", type(e).__name__)
        if res["native"] != res["lxml"]:
            out["ok"] = False
            out["problem"] = "the two writers' documents do not carry the same infoset: %s vs %s" % (repr(res["native"])[:200], repr(res["lxml"])[:200])
        return out
    raise ValueError(prop)


# ------------------------------------------------------------------------------------------------------------ reading model
# XML 1.0 reading of what a writer put between tags / between attribute quotes (productions [2] Char, [14] CharData, [10] AttValue,
# section 2.11 line ends, 3.3.3 attribute-value normalisation, 4.6 predefined entities): used as the oracle of the VALUE-SYMBOLIC
# drivers that execute the native writer's Python text layer (XmlEventWriter + xml.sax.saxutils) on a symbolic string.
def _xml_cp(cp):
    return cp == 0x9 or cp == 0xA or cp == 0xD or 0x20 <= cp <= 0xD7FF or 0xE000 <= cp <= 0xFFFD or 0x10000 <= cp <= 0x10FFFF


_ENT = {"amp": "&", "lt": "<", "gt": ">", "quot": '"', "apos": "'", "#9": "\t", "#10": "\n", "#13": "\r", "#x9": "\t", "#xA": "\n", "#xD": "\r"}


def read_chardata(raw, attribute=False, quote=None):
    """The string an XML 1.0 processor reports for `raw`; None if `raw` is not well-formed at that place."""
    out = []
    i, n = 0, len(raw)
    while i < n:
        ch = raw[i]
        cp = ord(ch)
        if cp == 0x3C:
            return None
        if attribute and quote is not None and cp == ord(quote):
            return None
        if cp == 0x26:
            j = i + 1
            while j < n and ord(raw[j]) != 0x3B:
                j += 1
            if j >= n:
                return None
            name = raw[i + 1 : j]
            hit = None
            for key, val in _ENT.items():
                if len(name) == len(key) and all([ord(a) == ord(b) for a, b in zip(name, key)]):
                    hit = val
            if hit is None:
                return None
            out.append(hit)
            i = j + 1
            continue
        if not _xml_cp(cp):
            return None
        if cp == 0xD:
            out.append(" " if attribute else "\n")
            if i + 1 < n and ord(raw[i + 1]) == 0xA:
                i += 1
        elif attribute and (cp == 0x9 or cp == 0xA):
            out.append(" ")
        else:
            out.append(ch)
        i += 1
    return "".join(out)


# ------------------------------------------------------------------------------------------------------------ XInclude
XI = "http://www.w3.org/2001/XInclude"
XI_ENCODINGS = ["utf-8", "iso-8859-1"]  # utf-16 text includes: libxml2 keeps the byte order mark as a character (not xsdata's doing)


def xinclude_variants(name, k, enc):
    """(inline document bytes, {file name: bytes} with main.xml) for the k-th element of the pool document (document order, root excluded):
    an element WITH children is moved to part.xml and included as XML; a childless element's text (plus a non-ASCII character) is moved to t.txt in
    encoding `enc` and included as text.  Both documents are produced by ElementTree from the same tree, so they differ in the inclusion only."""
    import copy
    import xml.etree.ElementTree as ET

    _cls, text = doc_text(name)
    root = ET.fromstring(text)
    parents = {c: p for p in root.iter() for c in p}
    target = list(root.iter())[1:][k]
    parent = parents[target]
    idx = list(parent).index(target)
    inline_root = copy.deepcopy(root)
    files = {}
    if len(target):
        files["part.xml"] = ET.tostring(target, encoding="utf-8")
        inc = ET.Element("{%s}include" % XI, {"href": "part.xml"})
        inc.tail = target.tail
        clone = copy.deepcopy(target)
        clone.tail = None
        files["part.xml"] = ET.tostring(clone, encoding="utf-8")
        parent.remove(target)
        parent.insert(idx, inc)
    else:
        body = (target.text or "") + "é"
        # the inline twin carries the same text
        list(inline_root.iter())[1:][k].text = body
        files["t.txt"] = body.encode(XI_ENCODINGS[enc])
        inc = ET.Element("{%s}include" % XI, {"href": "t.txt", "parse": "text", "encoding": XI_ENCODINGS[enc]})
        target.text = None
        target.append(inc)
    files["main.xml"] = ET.tostring(root, encoding="utf-8")
    return ET.tostring(inline_root, encoding="utf-8"), files


def et_safe(name):
    """ElementTree re-serialisation keeps the document's meaning (false for documents whose CONTENT uses prefixes: ElementTree renumbers them)."""
    import xml.etree.ElementTree as ET

    import warnings

    cls, text = doc_text(name)
    try:
        with warnings.catch_warnings():
            warnings.simplefilter("ignore")
            return parse(ET.tostring(ET.fromstring(text), encoding="utf-8"), cls, "native") == parse(text, cls, "native")
    except Exception:  # noqa: BLE001
        return False


def n_elements(name):
    import xml.etree.ElementTree as ET

    return len(list(ET.fromstring(doc_text(name)[1]).iter())) - 1


def parse_xinclude(files, cls, handler):
    """Write the files into a fresh directory and parse main.xml from its PATH with process_xinclude on."""
    import pathlib
    import shutil

    from xsdata.formats.dataclass.context import XmlContext
    from xsdata.formats.dataclass.parsers import XmlParser
    from xsdata.formats.dataclass.parsers.config import ParserConfig

    d = tempfile.mkdtemp(prefix="xi_")
    try:
        for fn, data in files.items():
            with open(os.path.join(d, fn), "wb") as f:
                f.write(data)
        p = XmlParser(context=XmlContext(), handler=handlers()[handler], config=ParserConfig(process_xinclude=True))
        return p.from_path(pathlib.Path(d) / "main.xml", cls)
    finally:
        shutil.rmtree(d, True)
