"""pyz3 - engine B: translate loop-free Python integer kernels from their *current source* to z3.

The function object's source is fetched with inspect.getsource on every run, parsed, and executed
symbolically statement by statement.  The result is a list of outcomes
``(path_condition, "ret"|"raise", value_or_exception_name)`` whose path conditions partition the
input space.  Python ints are z3 Ints (no wrap-around).  See DESIGN.md §3.2 / A.5 for the accepted
subset; everything else raises ``Unsupported`` and the kernel is reported inconclusive.
"""

from __future__ import annotations

import ast
import builtins
import inspect
import operator
import textwrap
import types

import z3


class Unsupported(Exception):
    pass


class SymObj:
    """A record standing for an instance of ``cls`` whose fields are z3 terms / constants."""

    def __init__(self, cls, **fields):
        self.cls = cls
        self.fields = fields


class Outcome:
    def __init__(self, pc, kind, value, env=None):
        self.pc, self.kind, self.value, self.env = pc, kind, value, env

    def __repr__(self):
        return f"<{self.kind} {self.value} if {self.pc}>"


def is_z3(v):
    return isinstance(v, z3.ExprRef)


def z3bool(v):
    """Python truthiness of a value as a z3 Bool or a Python bool."""
    if isinstance(v, z3.BoolRef):
        return v
    if is_z3(v):
        return v != 0
    return bool(v)


def to_arith(v):
    if isinstance(v, z3.BoolRef):
        return z3.If(v, z3.IntVal(1), z3.IntVal(0))
    if is_z3(v):
        return v
    if isinstance(v, bool):
        return int(v)
    if isinstance(v, float):
        if v != v or v in (float("inf"), float("-inf")) or v != int(v):
            raise Unsupported(f"non-integral float {v!r} in arithmetic")
        if abs(v) >= 2**53:
            raise Unsupported("float constant beyond 2**53")
        return int(v)
    if isinstance(v, int):
        return v
    raise Unsupported(f"arithmetic on {type(v).__name__}")


def conj(*xs):
    xs = [x for x in xs if x is not True]
    if any(x is False for x in xs):
        return False
    if not xs:
        return True
    return xs[0] if len(xs) == 1 else z3.And(*xs)


def neg(x):
    if x is True:
        return False
    if x is False:
        return True
    return z3.Not(x)


def disj(*xs):
    xs = [x for x in xs if x is not False]
    if any(x is True for x in xs):
        return True
    if not xs:
        return False
    return xs[0] if len(xs) == 1 else z3.Or(*xs)


def as_z3_bool(x):
    return z3.BoolVal(x) if isinstance(x, bool) else x


def merge(cases):
    """ITE-merge [(cond, value)] (conditions partition the space)."""
    vals = [v for _, v in cases]
    if all(not is_z3(v) and not isinstance(v, tuple) for v in vals) and all(type(v) is type(vals[0]) and v == vals[0] for v in vals):
        return vals[0]
    if all(isinstance(v, tuple) for v in vals):
        n = len(vals[0])
        if any(len(v) != n for v in vals):
            raise Unsupported("merging tuples of different length")
        return tuple(merge([(c, v[i]) for c, v in cases]) for i in range(n))
    if any(v is None or isinstance(v, (str, tuple, SymObj)) for v in vals):
        raise Unsupported("merging None/str/tuple with other values")
    allbool = all(isinstance(v, (bool, z3.BoolRef)) for v in vals)
    conv = (lambda v: as_z3_bool(v)) if allbool else (lambda v: (lambda a: z3.IntVal(a) if isinstance(a, int) else a)(to_arith(v)))
    out = conv(vals[-1])
    for c, v in reversed(cases[:-1]):
        if c is True:
            out = conv(v)
        elif c is False:
            continue
        else:
            out = z3.If(c, conv(v), out)
    return out


_OPERATOR_FUNCS = {getattr(operator, n) for n in ("eq", "ne", "lt", "le", "gt", "ge", "add", "sub", "neg")}


class Translator:
    def __init__(self, max_depth=8):
        self.max_depth = max_depth
        self.functions_seen = {}
        self.nonlinear = False

    # ------------------------------------------------------------------ functions
    def fn_ast(self, fn):
        src = textwrap.dedent(inspect.getsource(fn))
        tree = ast.parse(src)
        node = tree.body[0]
        if not isinstance(node, (ast.FunctionDef,)):
            raise Unsupported("not a plain function")
        self.functions_seen[f"{fn.__module__}.{fn.__qualname__}"] = src
        return node

    def call(self, fn, args, kwargs=None, depth=0):
        """Symbolically execute fn(*args); return list of Outcome with kind ret/raise."""
        if depth > self.max_depth:
            raise Unsupported("call depth")
        node = self.fn_ast(fn)
        env = {}
        params = node.args
        if params.vararg or params.kwarg or params.kwonlyargs or params.posonlyargs:
            raise Unsupported("complex signature")
        names = [a.arg for a in params.args]
        defaults = [None] * (len(names) - len(params.defaults)) + list(params.defaults)
        kwargs = dict(kwargs or {})
        for i, (name, dflt) in enumerate(zip(names, defaults)):
            if i < len(args):
                env[name] = args[i]
            elif name in kwargs:
                env[name] = kwargs.pop(name)
            elif dflt is not None:
                env[name] = ast.literal_eval(dflt)
            else:
                raise Unsupported(f"missing argument {name}")
        if kwargs or len(args) > len(names):
            raise Unsupported("bad call arguments")
        outs = self.block(node.body, env, True, fn.__globals__, depth)
        res = []
        for o in outs:
            if o.pc is False:
                continue
            if o.kind == "fall":
                res.append(Outcome(o.pc, "ret", None))
            else:
                res.append(o)
        return res

    # ------------------------------------------------------------------ statements
    def block(self, stmts, env, pc, glb, depth):
        if pc is False:
            return []
        if not stmts:
            return [Outcome(pc, "fall", None, env)]
        s, rest = stmts[0], stmts[1:]
        raises = []

        def ev(node):
            return self.expr(node, env, glb, depth, raises)

        def split(pc):
            """Fork off the raise side conditions gathered while evaluating this statement."""
            outs, ok = [], pc
            for cond, exc in raises:
                outs.append(Outcome(conj(ok, cond), "raise", exc))
                ok = conj(ok, neg(cond))
            return outs, ok

        if isinstance(s, ast.Expr):
            if isinstance(s.value, ast.Constant):
                return self.block(rest, env, pc, glb, depth)
            ev(s.value)
            outs, ok = split(pc)
            return outs + self.block(rest, env, ok, glb, depth)
        if isinstance(s, ast.Pass):
            return self.block(rest, env, pc, glb, depth)
        if isinstance(s, (ast.Assign, ast.AnnAssign)):
            value = ev(s.value)
            outs, ok = split(pc)
            env = dict(env)
            targets = s.targets if isinstance(s, ast.Assign) else [s.target]
            for t in targets:
                self.assign(t, value, env)
            return outs + self.block(rest, env, ok, glb, depth)
        if isinstance(s, ast.AugAssign):
            if not isinstance(s.target, ast.Name):
                raise Unsupported("augassign target")
            cur = env[s.target.id]
            value = self.binop(s.op, cur, ev(s.value), raises)
            outs, ok = split(pc)
            env = dict(env)
            env[s.target.id] = value
            return outs + self.block(rest, env, ok, glb, depth)
        if isinstance(s, ast.Return):
            value = None if s.value is None else ev(s.value)
            outs, ok = split(pc)
            return outs + [Outcome(ok, "ret", value)]
        if isinstance(s, ast.Raise):
            exc = s.exc
            if isinstance(exc, ast.Call):
                exc = exc.func
            if not isinstance(exc, ast.Name):
                raise Unsupported("raise of a non-name")
            return [Outcome(pc, "raise", exc.id)]
        if isinstance(s, ast.Assert):
            t = z3bool(ev(s.test))
            outs, ok = split(pc)
            if t is True:
                return outs + self.block(rest, env, ok, glb, depth)
            if t is False:
                return outs + [Outcome(ok, "raise", "AssertionError")]
            return outs + [Outcome(conj(ok, neg(t)), "raise", "AssertionError")] + self.block(rest, env, conj(ok, t), glb, depth)
        if isinstance(s, ast.If):
            t = z3bool(ev(s.test))
            outs, ok = split(pc)
            if t is True:
                return outs + self.block(list(s.body) + rest, env, ok, glb, depth)
            if t is False:
                return outs + self.block(list(s.orelse) + rest, env, ok, glb, depth)
            return (
                outs
                + self.block(list(s.body) + rest, dict(env), conj(ok, t), glb, depth)
                + self.block(list(s.orelse) + rest, dict(env), conj(ok, neg(t)), glb, depth)
            )
        raise Unsupported(f"statement {type(s).__name__}")

    def assign(self, target, value, env):
        if isinstance(target, ast.Name):
            env[target.id] = value
        elif isinstance(target, (ast.Tuple, ast.List)):
            if not isinstance(value, tuple) or len(value) != len(target.elts):
                raise Unsupported("tuple unpacking of a non-tuple")
            for t, v in zip(target.elts, value):
                self.assign(t, v, env)
        else:
            raise Unsupported("assignment target")

    # ------------------------------------------------------------------ expressions
    def lookup(self, name, env, glb):
        if name in env:
            return env[name]
        if name in glb:
            return glb[name]
        if hasattr(builtins, name):
            return getattr(builtins, name)
        raise Unsupported(f"unknown name {name}")

    def binop(self, op, a, b, raises):
        if isinstance(op, (ast.Add, ast.Sub, ast.Mult)):
            if isinstance(a, tuple) or isinstance(b, tuple):
                raise Unsupported("tuple arithmetic")
            if isinstance(a, float) and isinstance(b, (int, float)) and not isinstance(op, ast.Mult):
                pass
            # concrete first (Python semantics, including floats that stay integral)
            if not is_z3(a) and not is_z3(b):
                r = {ast.Add: operator.add, ast.Sub: operator.sub, ast.Mult: operator.mul}[type(op)](a, b)
                return r
            if isinstance(op, ast.Mult):
                # 0 * anything-concrete stays exact; x * non-integral float is unsupported
                if not is_z3(a) and isinstance(a, float) and a != int(a):
                    raise Unsupported(f"symbolic value times non-integral float {a!r}")
                if not is_z3(b) and isinstance(b, float) and b != int(b):
                    raise Unsupported(f"symbolic value times non-integral float {b!r}")
                if is_z3(a) and is_z3(b):
                    self.nonlinear = True
            x, y = to_arith(a), to_arith(b)
            return {ast.Add: operator.add, ast.Sub: operator.sub, ast.Mult: operator.mul}[type(op)](x, y)
        if isinstance(op, (ast.FloorDiv, ast.Mod)):
            if is_z3(b):
                raise Unsupported("division by a symbolic value")
            d = to_arith(b)
            if not isinstance(d, int) or d <= 0:
                raise Unsupported("division by a non-positive constant")
            if not is_z3(a):
                x = to_arith(a)
                return x // d if isinstance(op, ast.FloorDiv) else x % d
            x = to_arith(a)
            return x / d if isinstance(op, ast.FloorDiv) else x % d  # z3: floor/Euclid for d > 0 == Python
        raise Unsupported(f"operator {type(op).__name__}")

    def compare(self, op, a, b):
        if isinstance(op, (ast.Is, ast.IsNot)):
            if is_z3(a) or is_z3(b):
                if a is None or b is None:
                    return isinstance(op, ast.IsNot)
                raise Unsupported("'is' on symbolic values")
            return (a is b) if isinstance(op, ast.Is) else (a is not b)
        if isinstance(a, tuple) or isinstance(b, tuple):
            raise Unsupported("tuple comparison")
        if not is_z3(a) and not is_z3(b):
            f = {ast.Eq: operator.eq, ast.NotEq: operator.ne, ast.Lt: operator.lt, ast.LtE: operator.le, ast.Gt: operator.gt, ast.GtE: operator.ge}.get(type(op))
            if f is None:
                raise Unsupported("comparison operator")
            return f(a, b)
        if isinstance(a, (bool, z3.BoolRef)) and isinstance(b, (bool, z3.BoolRef)) and isinstance(op, (ast.Eq, ast.NotEq)):
            x, y = as_z3_bool(a), as_z3_bool(b)
        else:
            if a is None or b is None:
                if isinstance(op, ast.Eq):
                    return False
                if isinstance(op, ast.NotEq):
                    return True
                raise Unsupported("ordering against None")
            x, y = to_arith(a), to_arith(b)
        f = {ast.Eq: operator.eq, ast.NotEq: operator.ne, ast.Lt: operator.lt, ast.LtE: operator.le, ast.Gt: operator.gt, ast.GtE: operator.ge}.get(type(op))
        if f is None:
            raise Unsupported("comparison operator")
        return f(x, y)

    def expr(self, node, env, glb, depth, raises):
        ev = lambda n: self.expr(n, env, glb, depth, raises)  # noqa: E731
        if isinstance(node, ast.Constant):
            return node.value
        if isinstance(node, ast.Name):
            return self.lookup(node.id, env, glb)
        if isinstance(node, ast.Tuple):
            return tuple(ev(e) for e in node.elts)
        if isinstance(node, ast.UnaryOp):
            v = ev(node.operand)
            if isinstance(node.op, ast.Not):
                t = z3bool(v)
                return (not t) if isinstance(t, bool) else z3.Not(t)
            if isinstance(node.op, ast.USub):
                return -to_arith(v) if is_z3(v) else -v
            if isinstance(node.op, ast.UAdd):
                return to_arith(v)
            raise Unsupported("unary operator")
        if isinstance(node, ast.BinOp):
            return self.binop(node.op, ev(node.left), ev(node.right), raises)
        if isinstance(node, ast.Compare):
            left = ev(node.left)
            parts = []
            for op, comp in zip(node.ops, node.comparators):
                right = ev(comp)
                parts.append(self.compare(op, left, right))
                left = right
            if len(parts) == 1:
                return parts[0]
            if any(p is False for p in parts):
                return False
            parts = [p for p in parts if p is not True]
            if not parts:
                return True
            return z3.And(*parts) if len(parts) > 1 else parts[0]
        if isinstance(node, ast.BoolOp):
            # Python value semantics: a and b -> b if truth(a) else a
            # NOTE: right operands are evaluated eagerly; their raise side conditions are guarded below.
            vals = []
            guard = True
            for i, e in enumerate(node.values):
                sub = []
                v = self.expr(e, env, glb, depth, sub)
                for c, exc in sub:
                    raises.append((conj(guard, c), exc))
                vals.append(v)
                t = z3bool(v)
                guard = conj(guard, t if isinstance(node.op, ast.And) else neg(t))
            out = vals[-1]
            for v in reversed(vals[:-1]):
                t = z3bool(v)
                if isinstance(node.op, ast.And):
                    out = out if t is True else (v if t is False else merge([(t, out), (True, v)]))
                else:
                    out = v if t is True else (out if t is False else merge([(t, v), (True, out)]))
            return out
        if isinstance(node, ast.IfExp):
            t = z3bool(ev(node.test))
            if t is True:
                return ev(node.body)
            if t is False:
                return ev(node.orelse)
            sa, sb = [], []
            a = self.expr(node.body, env, glb, depth, sa)
            b = self.expr(node.orelse, env, glb, depth, sb)
            raises.extend((conj(t, c), e) for c, e in sa)
            raises.extend((conj(neg(t), c), e) for c, e in sb)
            return merge([(t, a), (True, b)])
        if isinstance(node, ast.Subscript):
            base = ev(node.value)
            idx = ev(node.slice)
            if isinstance(base, (list, tuple)) and not is_z3(idx):
                return base[idx]
            if isinstance(base, (list, tuple)) and is_z3(idx):
                n = len(base)
                raises.append((z3.Or(idx < -n, idx >= n), "IndexError"))
                cases = [(z3.Or(idx == i, idx == i - n), base[i]) for i in range(n)]
                return merge(cases)
            raise Unsupported("subscript")
        if isinstance(node, ast.Attribute):
            base = ev(node.value)
            return self.getattr(base, node.attr, depth, raises)
        if isinstance(node, ast.Call):
            if node.keywords and any(k.arg is None for k in node.keywords):
                raise Unsupported("**kwargs")
            # bound method on a symbolic record
            if isinstance(node.func, ast.Attribute):
                base = ev(node.func.value)
                if isinstance(base, SymObj):
                    f = inspect.getattr_static(base.cls, node.func.attr)
                    if isinstance(f, classmethod):
                        fn, args = f.__func__, [base.cls]
                    elif isinstance(f, staticmethod):
                        fn, args = f.__func__, []
                    else:
                        fn, args = f, [base]
                    args = args + [ev(a) for a in node.args]
                    kwargs = {k.arg: ev(k.value) for k in node.keywords}
                    return self.inline(fn, args, kwargs, depth, raises)
                fn = self.getattr(base, node.func.attr, depth, raises)
            else:
                fn = ev(node.func)
            args = [ev(a) for a in node.args]
            kwargs = {k.arg: ev(k.value) for k in node.keywords}
            return self.apply(fn, args, kwargs, depth, raises)
        raise Unsupported(f"expression {type(node).__name__}")

    def getattr(self, base, attr, depth, raises):
        if isinstance(base, SymObj):
            if attr in base.fields:
                return base.fields[attr]
            if attr == "__class__":
                return base.cls
            static = inspect.getattr_static(base.cls, attr)
            if isinstance(static, property):
                return self.inline(static.fget, [base], {}, depth, raises)
            raise Unsupported(f"attribute {attr} of symbolic record")
        if is_z3(base):
            raise Unsupported("attribute of a symbolic value")
        return getattr(base, attr)

    def inline(self, fn, args, kwargs, depth, raises):
        outs = self.call(fn, args, kwargs, depth + 1)
        rets = []
        for o in outs:
            if o.kind == "raise":
                raises.append((o.pc, o.value))
            else:
                rets.append((o.pc, o.value))
        if not rets:
            return None
        return merge(rets)

    def apply(self, fn, args, kwargs, depth, raises):
        sym = any(is_z3(a) or isinstance(a, SymObj) or (isinstance(a, tuple) and any(is_z3(x) for x in a)) for a in list(args) + list(kwargs.values()))
        if fn is divmod and len(args) == 2:
            return (self.binop(ast.FloorDiv(), args[0], args[1], raises), self.binop(ast.Mod(), args[0], args[1], raises))
        if fn is isinstance and len(args) == 2:
            a, c = args
            if isinstance(a, SymObj):
                return issubclass(a.cls, c)
            if is_z3(a):
                if isinstance(a, z3.BoolRef):
                    return issubclass(bool, c) if isinstance(c, type) else any(issubclass(bool, x) for x in c)
                return issubclass(int, c) if isinstance(c, type) else any(issubclass(int, x) for x in c)
            return isinstance(a, c)
        if fn is abs and len(args) == 1 and is_z3(args[0]):
            x = to_arith(args[0])
            return z3.If(x < 0, -x, x)
        if fn is int and len(args) == 1 and is_z3(args[0]):
            return to_arith(args[0])
        if fn is bool and len(args) == 1:
            return z3bool(args[0])
        if fn in _OPERATOR_FUNCS:
            if len(args) == 2:
                op = {operator.eq: ast.Eq, operator.ne: ast.NotEq, operator.lt: ast.Lt, operator.le: ast.LtE, operator.gt: ast.Gt, operator.ge: ast.GtE}.get(fn)
                if op is not None:
                    return self.compare(op(), args[0], args[1])
                return self.binop({operator.add: ast.Add, operator.sub: ast.Sub}[fn](), args[0], args[1], raises)
            return -to_arith(args[0])
        if not sym:
            if isinstance(fn, (types.BuiltinFunctionType, type)) or not isinstance(fn, types.FunctionType):
                return fn(*args, **kwargs)
        if isinstance(fn, types.FunctionType):
            return self.inline(fn, args, kwargs, depth, raises)
        if isinstance(fn, type) and issubclass(fn, tuple) and hasattr(fn, "_fields"):
            # NamedTuple construction with symbolic fields
            fields = dict(zip(fn._fields, args))
            fields.update(kwargs)
            for f in fn._fields:
                if f not in fields:
                    fields[f] = fn._field_defaults[f]
            return SymObj(fn, **fields)
        raise Unsupported(f"call of {getattr(fn, '__name__', fn)!r} on symbolic arguments")


# ---------------------------------------------------------------------- helpers for queries
def raise_condition(outcomes, exc=None):
    return disj(*[o.pc for o in outcomes if o.kind == "raise" and (exc is None or o.value == exc)])


def return_value(outcomes):
    rets = [(o.pc, o.value) for o in outcomes if o.kind == "ret"]
    return merge(rets)


def evaluate(outcomes, subst):
    """Evaluate outcomes at a concrete point (list of (z3 var, python int)); returns (kind, value)."""
    pairs = [(v, z3.IntVal(c)) for v, c in subst]
    for o in outcomes:
        pc = o.pc
        if pc is not True and pc is not False:
            pc = z3.is_true(z3.simplify(z3.substitute(pc, *pairs)))
        if pc:
            val = o.value
            if is_z3(val):
                val = z3.simplify(z3.substitute(val, *pairs))
                if z3.is_int_value(val):
                    val = val.as_long()
                elif z3.is_true(val):
                    val = True
                elif z3.is_false(val):
                    val = False
            return o.kind, val
    return ("none", None)
