"""Query helper for engine B: assert the negated property, read unsat as 'holds', sat as a model to replay."""
import time

import z3


class QuerySet:
    def __init__(self, timeout_s):
        self.deadline = time.time() + timeout_s
        self.queries = 0
        self.unknown = []
        self.cex = []
        self.samples = []
        self.unsupported = []

    def check(self, name, negated_property, variables, replay_fn=None, decode=None, assumptions=()):
        """unsat => property holds for all values; sat => counterexample (decoded with `decode(model)` to driver args)."""
        s = z3.Solver()
        remaining = max(1.0, self.deadline - time.time())
        s.set("timeout", int(min(remaining, 120) * 1000))
        for a in assumptions:
            s.add(a)
        s.add(negated_property)
        self.queries += 1
        r = s.check()
        if len(self.samples) < 3:
            self.samples.append({"query": name, "result": str(r), "smt2_head": s.to_smt2()[:400]})
        if str(r) == "unsat":
            return "unsat"
        if str(r) == "sat":
            m = s.model()
            vals = {str(v): (m.eval(v, model_completion=True).as_long() if z3.is_int(v) else z3.is_true(m.eval(v, model_completion=True))) for v in variables}
            args = decode(vals) if decode else [vals[str(v)] for v in variables]
            self.cex.append({"args": args, "replay_fn": replay_fn, "message": f"z3 model for negated property `{name}`: {vals}"})
            return "sat"
        self.unknown.append(name)
        return "unknown"

    def witness(self, name, formula, assumptions=()):
        """Reachability / vacuity guard: the formula must be satisfiable."""
        s = z3.Solver()
        s.set("timeout", 30000)
        for a in assumptions:
            s.add(a)
        s.add(formula)
        self.queries += 1
        r = str(s.check())
        if r != "sat":
            self.unknown.append(f"vacuity:{name}:{r}")
        return r == "sat"

    def result(self, detail=None):
        status = "SAT" if self.cex else ("UNKNOWN" if (self.unknown or self.unsupported) else "UNSAT")
        out = {"status": status, "queries": self.queries, "counterexamples": self.cex, "sample": self.samples[:2]}
        d = dict(detail or {})
        if self.unknown:
            d["unknown"] = self.unknown
        if self.unsupported:
            d["unsupported"] = self.unsupported
        if d:
            out["detail"] = d
        return out
