"""Engine C (DESIGN.md §3.3): coroutine lowering of the real methods + forced-schedule replay on real threads.

lower(cls, names, shared) re-parses the CURRENT source of the listed methods, inserts ``yield <lineno>`` immediately
before every statement whose header reads or writes one of the `shared` attributes, turns calls to other lowered methods
into ``yield from``, and compiles the result in a copy of the defining module's globals.  Statements that touch only
thread-local data are not scheduling points (they commute).  Any switch at such a statement boundary is a schedule real
threads can produce under the GIL, so a diverging schedule is real; switches inside a statement are not explored.
"""

from __future__ import annotations

import ast
import inspect
import sys
import textwrap
import threading


class _Lower(ast.NodeTransformer):
    def __init__(self, lowered, shared, line_offset):
        self.lowered, self.shared, self.off = set(lowered), set(shared), line_offset
        self.points = []

    # ---- expressions: self.<lowered>(...) / cls.<lowered>(...) -> (yield from self.<lowered>__co(...))
    def visit_Call(self, node):
        self.generic_visit(node)
        f = node.func
        if isinstance(f, ast.Attribute) and isinstance(f.value, ast.Name) and f.value.id in ("self", "cls") and f.attr in self.lowered:
            new = ast.Call(ast.Attribute(f.value, f.attr + "__co", ast.Load()), node.args, node.keywords)
            return ast.copy_location(ast.YieldFrom(new), node)
        return node

    def visit_Lambda(self, node):
        return node

    def visit_FunctionDef(self, node):
        return node  # nested functions are not lowered (a yield inside would turn them into generators)

    visit_AsyncFunctionDef = visit_ClassDef = visit_FunctionDef

    def visit_ListComp(self, node):
        return node

    visit_SetComp = visit_DictComp = visit_GeneratorExp = visit_ListComp

    def _touches(self, node):
        for n in ast.walk(node):
            if isinstance(n, ast.Attribute) and n.attr in self.shared:
                return True
        return False

    def _header(self, stmt):
        if isinstance(stmt, (ast.If, ast.While)):
            return stmt.test
        if isinstance(stmt, ast.For):
            return None  # a for header fires a line event per iteration: never a scheduling point here
        if isinstance(stmt, (ast.With, ast.Try, ast.FunctionDef, ast.ClassDef)):
            return None
        return stmt

    def _block(self, stmts):
        out = []
        for s in stmts:
            h = self._header(s)
            if h is not None and self._touches(h):
                line = s.lineno + self.off
                self.points.append(line)
                out.append(ast.copy_location(ast.Expr(ast.Yield(ast.Constant(line))), s))
            out.append(self.visit(s))
        return out

    def generic_visit(self, node):
        for fld in ("body", "orelse", "finalbody"):
            val = getattr(node, fld, None)
            if isinstance(val, list) and val and isinstance(val[0], ast.stmt):
                setattr(node, fld, self._block(val))
        for fld, val in ast.iter_fields(node):
            if fld in ("body", "orelse", "finalbody") and isinstance(val, list) and val and isinstance(val[0], ast.stmt):
                continue
            if isinstance(val, list):
                setattr(node, fld, [self.visit(v) if isinstance(v, ast.AST) else v for v in val])
            elif isinstance(val, ast.AST):
                setattr(node, fld, self.visit(val))
        return node


def lower(cls, names, shared):
    """Attach <name>__co generator versions of the listed methods to cls; returns {"points": {file: [lines]}, "sources": {...}}."""
    mod = sys.modules[cls.__module__]
    glb = dict(mod.__dict__)
    info = {"points": {}, "sources": {}}
    for name in names:
        raw = inspect.getattr_static(cls, name)
        kind = "method"
        fn = raw
        if isinstance(raw, classmethod):
            kind, fn = "classmethod", raw.__func__
        elif isinstance(raw, staticmethod):
            kind, fn = "staticmethod", raw.__func__
        src_lines, first = inspect.getsourcelines(fn)
        src = textwrap.dedent("".join(src_lines))
        tree = ast.parse(src)
        fdef = tree.body[0]
        fdef.decorator_list = []
        tr = _Lower(names, shared, first - 1)
        fdef.body = tr._block(fdef.body)
        # force generator-ness even without a scheduling point
        fdef.body.append(ast.If(ast.Constant(False), [ast.Expr(ast.Yield(ast.Constant(0)))], []))
        fdef.name = name + "__co"
        ast.fix_missing_locations(tree)
        code = compile(tree, f"<lowered {cls.__name__}.{name}>", "exec")
        ns = {}
        exec(code, glb, ns)  # noqa: S102
        g = ns[name + "__co"]
        if kind == "classmethod":
            g = classmethod(g)
        elif kind == "staticmethod":
            g = staticmethod(g)
        setattr(cls, name + "__co", g)
        info["points"].setdefault(inspect.getsourcefile(fn), []).extend(tr.points)
        info["sources"][f"{cls.__module__}.{cls.__qualname__}.{name}"] = src
    return info


def run_schedule(gens, start, preempt):
    """Step generators under a schedule: thread `start` runs first; at global step indices listed in `preempt` the running
    thread is switched (if the other one is alive); a finished thread hands over.  Returns (results, steps)."""
    n = len(gens)
    results = [None] * n
    done = [False] * n
    cur = start
    step = 0
    pre = set(preempt)
    while not all(done):
        if done[cur]:
            cur = [i for i in range(n) if not done[i]][0]
        elif step in pre and not all(done[i] for i in range(n) if i != cur):
            cur = [i for i in range(n) if not done[i] and i != cur][0]
        try:
            next(gens[cur])
        except StopIteration as e:
            results[cur] = ("ok", e.value)
            done[cur] = True
        except Exception as e:  # noqa: BLE001
            results[cur] = ("exc", type(e).__name__)
            done[cur] = True
        step += 1
    return results, step


class RealThreads:
    """Forced-schedule replay of UNLOWERED methods on real threading.Threads: a sys.settrace line hook parks each thread
    on a semaphore at the source lines that carry a scheduling point; the controller releases them following the same policy
    as run_schedule (one release == one generator step)."""

    def __init__(self, points, start, preempt):
        self.points = {f: set(ls) for f, ls in points.items()}
        self.start, self.preempt = start, set(preempt)

    def run(self, ops):
        n = len(ops)
        sems = [threading.Semaphore(0) for _ in range(n)]
        ctrl = threading.Semaphore(0)
        done = [False] * n
        results = [None] * n

        def tracer(tid):
            def local(frame, event, arg):
                if event == "line" and frame.f_lineno in self.points.get(frame.f_code.co_filename, ()):
                    ctrl.release()
                    sems[tid].acquire()
                return local

            def glob(frame, event, arg):
                return local if frame.f_code.co_filename in self.points else None

            return glob

        def body(tid):
            sems[tid].acquire()
            sys.settrace(tracer(tid))
            try:
                results[tid] = ("ok", ops[tid]())
            except Exception as e:  # noqa: BLE001
                results[tid] = ("exc", type(e).__name__)
            finally:
                sys.settrace(None)
                done[tid] = True
                ctrl.release()

        ths = [threading.Thread(target=body, args=(i,), daemon=True) for i in range(n)]
        for t in ths:
            t.start()
        cur, step = self.start, 0
        while not all(done):
            if done[cur]:
                cur = [i for i in range(n) if not done[i]][0]
            elif step in self.preempt and not all(done[i] for i in range(n) if i != cur):
                cur = [i for i in range(n) if not done[i] and i != cur][0]
            sems[cur].release()
            if not ctrl.acquire(timeout=20):
                raise RuntimeError("forced schedule stalled")
            step += 1
        for t in ths:
            t.join(5)
        return results, step
