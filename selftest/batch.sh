#!/bin/sh
# usage: batch.sh <PROP> : run the PROP quick check against each seeded change in /tmp/wt/<PROP>_out/N
P=$1; shift
for d in /tmp/wt/${P}_out/[0-9]*; do
  [ -f "$d/patch.diff" ] || continue
  /verif/.venv/bin/python /verif/selftest/run_seeded.py "$d" "${2:-$P}" 2>&1 | grep "^SEEDED" >> /tmp/wt/results.jsonl
done
