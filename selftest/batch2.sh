#!/bin/sh
# usage: batch2.sh <out.jsonl> <dir> [<dir> ...] : run the owning property's quick check (fail-fast) against each seeded change dir
OUT=$1; shift
for d in "$@"; do
  [ -f "$d/patch.diff" ] || continue
  P=$(basename $(dirname $d) | sed 's/_out[0-9]*$//')
  /verif/.venv/bin/python /verif/selftest/run_seeded.py "$d" "$P" 2>&1 | grep "^SEEDED" >> $OUT
done
