"""Copy confirmed seeded changes from /tmp/wt/<PROP>_out/N into /verif/seeded/<PROP>-N/ and (re)write meta.json from a results file."""
import json
import os
import shutil
import sys

VERIF = os.path.dirname(os.path.dirname(os.path.abspath(__file__)))
MISS = {
    "C12-r3-1": "missed when the batch ran: the graph schema then made every alternative of the repeating choice ambiguous, so DisambiguateChoices replaced the choices whose metadata carried the id; schema corrected afterwards (the check catches it: see DESIGN 10.5)",
    "C10-r1-2": "missed by the quick tier when run; the check now has a document with an object nested below a best-match object (doc holdernest)",
}
res = {}
for fn in sys.argv[1:]:
    for l in open(fn):
        if l.startswith("SEEDED "):
            d = json.loads(l[7:])
            if d["dir"] in res:  # later files add checks of further properties (cross-property runs)
                merged = dict(res[d["dir"]].get("checks", {}))
                merged.update(d.get("checks", {}))
                d["checks"] = merged
            res[d["dir"]] = d
for src, d in sorted(res.items()):
    folder, n = src.split("/")[-2], src.split("/")[-1]
    prop = folder.split("_")[0]
    n = ("r3-" if folder.endswith("_out3") else "r2-" if folder.endswith("_out2") else "r1-") + n
    dst = os.path.join(VERIF, "seeded", f"{prop}-{n}")
    ok = d.get("tests_passed") == 263 and not d.get("tests_failed") and d.get("demo_clean_exit") == 0 and d.get("demo_patched_exit") == 1
    if not ok:
        print("NOT CONFIRMED, skipped:", src, {k: d.get(k) for k in ("tests_passed", "demo_clean_exit", "demo_patched_exit")})
        continue
    os.makedirs(dst, exist_ok=True)
    for f in ("patch.diff", "demo.py"):
        shutil.copy(os.path.join(src, f), os.path.join(dst, f))
    if os.path.exists(os.path.join(src, "patch.orig.diff")):  # the change as written, before it was rebased onto a later fix: commit in /repo
        shutil.copy(os.path.join(src, "patch.orig.diff"), os.path.join(dst, "patch.original.diff"))
    meta = json.load(open(os.path.join(src, "meta.json")))
    meta["property"] = prop
    meta["confirmed"] = {"tests_passed_with_change": d["tests_passed"], "demo_exit_clean_tree": d["demo_clean_exit"], "demo_exit_patched_tree": d["demo_patched_exit"],
                         "how": "selftest/run_seeded.py: scratch worktree of /repo, git apply patch.diff, repository test suite, demo.py on both trees, bin/check <property> --tier quick with XSDATA_SRC=<patched tree>"}
    meta["checks"] = {p: {"exit": c["exit"], "violation_lines": c["violations"], "first_counterexample": (c["first_counterexamples"] or [None])[0], "harness_errors": c["harness_errors"][:1], "wall_s": c["wall_s"]} for p, c in d.get("checks", {}).items()}
    meta["caught_by"] = [p for p, c in d.get("checks", {}).items() if c["exit"] == 1]
    if not meta["caught_by"]:
        meta["miss_reason"] = MISS.get(f"{prop}-{n}", "")
    json.dump(meta, open(os.path.join(dst, "meta.json"), "w"), indent=1)
    print(f"{prop}-{n}", "caught by", meta["caught_by"] or "NONE")
