"""Copy confirmed seeded changes from /tmp/wt/<PROP>_out/N into /verif/seeded/<PROP>-N/ and (re)write meta.json from a results file."""
import json
import os
import shutil
import sys

VERIF = os.path.dirname(os.path.dirname(os.path.abspath(__file__)))
res = {}
for l in open(sys.argv[1]):
    if l.startswith("SEEDED "):
        d = json.loads(l[7:])
        res[d["dir"]] = d  # last result wins
for src, d in sorted(res.items()):
    prop, n = src.split("/")[-2].replace("_out", ""), src.split("/")[-1]
    dst = os.path.join(VERIF, "seeded", f"{prop}-{n}")
    ok = d.get("tests_passed") == 263 and not d.get("tests_failed") and d.get("demo_clean_exit") == 0 and d.get("demo_patched_exit") == 1
    if not ok:
        print("NOT CONFIRMED, skipped:", src, {k: d.get(k) for k in ("tests_passed", "demo_clean_exit", "demo_patched_exit")})
        continue
    os.makedirs(dst, exist_ok=True)
    for f in ("patch.diff", "demo.py"):
        shutil.copy(os.path.join(src, f), os.path.join(dst, f))
    meta = json.load(open(os.path.join(src, "meta.json")))
    meta["property"] = prop
    meta["confirmed"] = {"tests_passed_with_change": d["tests_passed"], "demo_exit_clean_tree": d["demo_clean_exit"], "demo_exit_patched_tree": d["demo_patched_exit"],
                         "how": "selftest/run_seeded.py: scratch worktree of /repo, git apply patch.diff, repository test suite, demo.py on both trees, bin/check <property> --tier quick with XSDATA_SRC=<patched tree>"}
    meta["checks"] = {p: {"exit": c["exit"], "violation_lines": c["violations"], "first_counterexample": (c["first_counterexamples"] or [None])[0], "harness_errors": c["harness_errors"][:1], "wall_s": c["wall_s"]} for p, c in d.get("checks", {}).items()}
    meta["caught_by"] = [p for p, c in d.get("checks", {}).items() if c["exit"] == 1]
    json.dump(meta, open(os.path.join(dst, "meta.json"), "w"), indent=1)
    print(f"{prop}-{n}", "caught by", meta["caught_by"] or "NONE")
