"""Print the DESIGN.md table of seeded changes from /verif/seeded/*/meta.json."""
import glob
import json
import os

VERIF = os.path.dirname(os.path.dirname(os.path.abspath(__file__)))
rows = []
for f in sorted(glob.glob(os.path.join(VERIF, "seeded", "*", "meta.json"))):
    m = json.load(open(f))
    name = os.path.basename(os.path.dirname(f))
    caught = m.get("caught_by") or []
    first = ""
    for p in caught:
        fc = (m["checks"][p].get("first_counterexample") or "")
        first = fc.replace("counterexample: ", "").split(":")[0]
        break
    rows.append((name, (m.get("summary") or "").replace("|", "/").replace("\n", " ")[:150], (m.get("needs") or "").replace("|", "/").replace("\n", " ")[:110],
                 ", ".join(caught) if caught else "**missed**", first, m.get("miss_reason", "")))
print("| change | what was changed | needs | caught by | first refuted harness | if missed: why |")
print("|---|---|---|---|---|---|")
for r in rows:
    print("| " + " | ".join(r) + " |")
print()
print(f"{sum(1 for r in rows if not r[3].startswith('**'))} of {len(rows)} seeded changes are caught by a registered quick check.")
