"""Run registered checks against a seeded change (not a registered check).

    run_seeded.py <dir containing patch.diff [demo.py meta.json]> <PROP>[,<PROP>...] [--tier quick] [--keep]

Creates a scratch git worktree of /repo under /tmp/st, applies the patch there, (1) runs the repository's test suite,
(2) runs demo.py on the clean and on the patched tree, (3) runs `bin/check <PROP> --no-evidence` with XSDATA_SRC pointing at the
patched tree (the runner puts XSDATA_SRC first on sys.path in every worker, so the registered commands analyse that source),
prints one JSON summary line and removes the worktree.
"""
import json
import os
import re
import shutil
import subprocess
import sys
import time

VERIF = os.path.dirname(os.path.dirname(os.path.abspath(__file__)))


def sh(cmd, **kw):
    return subprocess.run(cmd, shell=True, capture_output=True, text=True, **kw)


def main():
    d = os.path.abspath(sys.argv[1])
    props = sys.argv[2].split(",")
    tier = "quick"
    if "--tier" in sys.argv:
        tier = sys.argv[sys.argv.index("--tier") + 1]
    name = re.sub(r"[^A-Za-z0-9]+", "_", d)[-40:] + "_%d" % os.getpid()
    wt = f"/tmp/st/{name}"
    os.makedirs("/tmp/st", exist_ok=True)
    sh(f"git -C /repo worktree add -q --detach {wt} HEAD")
    out = {"dir": d, "props": props}
    try:
        demo = os.path.join(d, "demo.py")
        if os.path.exists(demo):
            r = sh(f"PYTHONPATH={wt} /venv/bin/python {demo}", cwd=wt, timeout=600)
            out["demo_clean_exit"] = r.returncode
        a = sh(f"git -C {wt} apply {os.path.join(d, 'patch.diff')}")
        if a.returncode != 0:  # /repo has moved on since the change was written: fall back to a three-way merge
            a = sh(f"git -C {wt} apply --3way {os.path.join(d, 'patch.diff')}")
        out["applied"] = a.returncode == 0
        if a.returncode != 0:
            out["apply_error"] = a.stderr[-500:]
            print(json.dumps(out))
            return
        if os.path.exists(demo):
            r = sh(f"PYTHONPATH={wt} /venv/bin/python {demo}", cwd=wt, timeout=600)
            out["demo_patched_exit"] = r.returncode
            out["demo_patched_tail"] = (r.stdout + r.stderr)[-300:]
        os.makedirs(wt + "_tmp", exist_ok=True)
        t = sh(f"cd {wt} && TMPDIR={wt}_tmp PYTHONPATH={wt} /venv/bin/python -m pytest -q -p no:cacheprovider --timeout=900 --continue-on-collection-errors 2>&1 | tail -1")
        m = re.search(r"(\d+) passed", t.stdout)
        out["tests_passed"] = int(m.group(1)) if m else None
        out["tests_failed"] = "failed" in t.stdout
        out["checks"] = {}
        for p in props:
            t0 = time.time()
            r = sh(f"XSDATA_SRC={wt} {VERIF}/bin/check {p} --tier {tier} --no-evidence --fail-fast", cwd=VERIF, timeout=7200)
            viol = [ln for ln in r.stdout.splitlines() if ln.startswith("VIOLATION")]
            cex = [ln.strip()[:300] for ln in r.stdout.splitlines() if ln.strip().startswith("counterexample:")]
            herr = [ln[:300] for ln in r.stdout.splitlines() if ln.startswith("HARNESS-ERROR")]
            out["checks"][p] = {"exit": r.returncode, "violations": len(viol), "first_counterexamples": cex[:3], "harness_errors": herr[:3], "wall_s": round(time.time() - t0)}
    finally:
        if "--keep" not in sys.argv:
            sh(f"git -C /repo worktree remove --force {wt}")
            shutil.rmtree(wt, ignore_errors=True)
            shutil.rmtree(wt + "_tmp", ignore_errors=True)
    print("SEEDED " + json.dumps(out))


main()
