"""Stand-in for the absent `click` package: only what xsdata.codegen.exceptions needs at import time."""


class ClickException(Exception):
    exit_code = 1

    def __init__(self, message: str = "") -> None:
        super().__init__(message)
        self.message = message

    def format_message(self) -> str:
        return self.message

    def show(self, file=None) -> None:  # pragma: no cover
        pass


def echo(*args, **kwargs) -> None:
    pass
