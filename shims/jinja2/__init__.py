"""Stand-in for the absent `jinja2` package: lets filters.py / generator.py import; rendering is impossible."""


class Environment:
    def __init__(self, *a, **kw):
        raise RuntimeError("jinja2 is not installed in this sandbox (shim): rendering is outside every claim")


class FileSystemLoader:
    def __init__(self, *a, **kw):
        pass
