"""Stand-in for the absent `toposort` package (the published algorithm, sorted levels)."""
from functools import reduce as _reduce


class CircularDependencyError(ValueError):
    def __init__(self, data):
        s = "Circular dependencies exist among these items: {{{}}}".format(
            ", ".join("{!r}:{!r}".format(key, value) for key, value in sorted(data.items()))
        )
        super().__init__(s)
        self.data = data


def toposort(data):
    if len(data) == 0:
        return
    data = {item: set(e for e in dep if e != item) for item, dep in data.items()}
    extra_items_in_deps = _reduce(set.union, data.values()) - set(data.keys())
    data.update({item: set() for item in extra_items_in_deps})
    while True:
        ordered = set(item for item, dep in data.items() if len(dep) == 0)
        if not ordered:
            break
        yield ordered
        data = {item: (dep - ordered) for item, dep in data.items() if item not in ordered}
    if len(data) != 0:
        raise CircularDependencyError(data)


def toposort_flatten(data, sort=True):
    result = []
    for d in toposort(data):
        result.extend((sorted if sort else list)(d))
    return result
