"""One CrossHair analysis = one process.

usage: chworker.py <module> <function> <partition-json> <per_condition_timeout> <per_path_timeout>

Prints one JSON line: {"status": CONFIRMED|REFUTED|UNKNOWN|PRE_UNSAT|ERROR, "messages": [...],
"paths": n, "cpu_s": s, ...}.  The harness module is imported from /verif/harness with the xsdata
source root (XSDATA_SRC, default /repo) first on sys.path, so the encoding is whatever the
working tree currently contains.
"""

from __future__ import annotations

import collections
import importlib
import json
import os
import sys
import time
import traceback

VERIF = os.path.dirname(os.path.dirname(os.path.abspath(__file__)))
SRC = os.environ.get("XSDATA_SRC", "/repo")
for p in (VERIF, os.path.join(VERIF, "shims_path"), SRC):
    if p in sys.path:
        sys.path.remove(p)
sys.path.insert(0, VERIF)
sys.path.insert(0, SRC)


def main() -> int:
    modname, fname, part_json, tcond, tpath = sys.argv[1:6]
    os.environ["XSV_PART"] = part_json
    out = {"module": modname, "function": fname, "partition": json.loads(part_json)}
    t0 = time.process_time()
    w0 = time.time()
    try:
        from vlib import shims

        shims.install()
        import chmodels

        chmodels.install()
        from crosshair.core_and_libs import MessageType, analyze_function, run_checkables
        from crosshair.options import AnalysisKind, AnalysisOptionSet

        if os.environ.get("XSV_DEBUG"):
            from crosshair.util import set_debug

            set_debug(True)
        mod = importlib.import_module(modname)
        fn = getattr(mod, fname)
        stats: collections.Counter = collections.Counter()
        opts = AnalysisOptionSet(
            analysis_kind=(AnalysisKind.PEP316,),
            per_condition_timeout=float(tcond),
            per_path_timeout=float(tpath),
            report_all=True,
            max_uninteresting_iterations=sys.maxsize,
            stats=stats,
        )
        checkables = analyze_function(fn, opts)
        msgs = run_checkables(checkables)
        out["paths"] = int(stats.get("num_paths", 0))
        out["messages"] = [
            {"state": m.state.name, "message": m.message, "line": m.line} for m in msgs
        ]
        states = {m.state for m in msgs}
        if MessageType.POST_FAIL in states or MessageType.POST_ERR in states or MessageType.EXEC_ERR in states:
            out["status"] = "REFUTED"
        elif MessageType.PRE_UNSAT in states:
            out["status"] = "PRE_UNSAT"
        elif MessageType.SYNTAX_ERR in states or MessageType.IMPORT_ERR in states:
            out["status"] = "ERROR"
        elif MessageType.CANNOT_CONFIRM in states:
            out["status"] = "UNKNOWN"
        elif MessageType.CONFIRMED in states:
            out["status"] = "CONFIRMED"
        else:
            out["status"] = "ERROR"
            out["error"] = "no message from CrossHair (no contract found?)"
    except BaseException as e:  # noqa: BLE001  (report everything, including CrossHair internals)
        out["status"] = "ERROR"
        out["error"] = f"{type(e).__name__}: {e}"
        out["traceback"] = traceback.format_exc()[-3000:]
    out["cpu_s"] = round(time.process_time() - t0, 2)
    out["wall_s"] = round(time.time() - w0, 2)
    print("XSVRESULT " + json.dumps(out))
    return 0


if __name__ == "__main__":
    sys.exit(main())
