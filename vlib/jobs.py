"""Job description shared by the runner and the harness plans."""


class Job:
    """One solver obligation: a CrossHair contract under one configuration partition, or a z3 query set."""

    def __init__(self, fn, part=None, timeout=120, path_timeout=20, kind="ch", group=None, note=""):
        self.fn = fn
        self.part = part or {}
        self.timeout = timeout
        self.path_timeout = path_timeout
        self.kind = kind  # "ch" (CrossHair), "z3" (engine B / direct z3 queries)
        self.group = group or fn
        self.note = note

    @property
    def key(self):
        return self.fn + ("" if not self.part else "[" + ",".join(f"{k}={v}" for k, v in sorted(self.part.items()) if not k.startswith("_")) + "]")
