check(
    "C06",
    "Bounded, solver-decided: (A) CrossHair executes the real DateTimeParser/from_string/__str__/XmlPeriod/XmlDuration code on lexical shapes whose every digit is a z3 variable and on values whose every component is a z3 integer; a harness counts only if its path tree was exhausted and its reachability twin reached. (B) validate_date/validate_time/monthlen and the comparison operators of XmlDateTime/XmlTime are translated from their current source to z3 (pyz3) and proved equivalent to an independent calendar predicate (all integers) and to an independent integer timeline key (|year| <= 9999). Not a proof: shapes, digit counts and year ranges are bounded as listed in the evidence.",
    "Trusted: z3, CrossHair's symbolic execution and string model, the /verif/chmodels integer<->string models (validated against CPython on a boundary grid each run), the pyz3 translator (validated by replaying every model on the real code). Outside: years > 6 digits, offsets beyond +-14:00, BCE Feb 29, mixed offset presence, duration fractional-second values.",
    "symbolic execution (CrossHair+z3) of the real parser/formatter over all digit fillings of enumerated lexical shapes; AST->z3 translation of calendar and comparison kernels, unsat = holds",
    "DESIGN.md §5 C06",
)
check(
    "C05",
    "Bounded, solver-decided: CrossHair executes the real converters (bool/int/bytes/QName/enum/float serialisation, ConverterFactory.deserialize/sort_types/test) on strings whose characters or digits are z3 variables and on symbolic ints/bytes; DataType int inference is translated to z3 (pyz3) and proved for all integers. QName/enum/candidate-list drivers are selector-driven (finite pools enumerated by the solver's forking) and say so in the evidence; float/Decimal C functions run only on a concrete edge pool.",
    "Trusted: z3, CrossHair, the chmodels integer<->string models, pure-Python models of binascii/base64 (validated against the C functions at import), the symbolic repr(float) grammar stub. Outside: float()/repr(float)/Decimal internals, strptime formats, strings accepted beyond the XSD lexical space.",
    "symbolic execution (CrossHair+z3) of the real converter code over all strings/digit fillings within length bounds; AST->z3 proof for integer datatype inference",
    "DESIGN.md §5 C05",
)
_SEAM_NOTE = ("Trusted: z3, CrossHair, the chmodels integer<->string models, and the SAX seam (harness/seam.py: recorder ContentHandler + iterparse-contract "
              "element stubs), which is validated on every run against the real text path (XmlSerializer.render / XmlParser.from_string, all writer x handler "
              "pairs) on a concrete corpus. Outside: the text layer (escaping, encodings, declaration, entities/CDATA, XML Char validity - XMLGenerator, lxml, "
              "expat, libxml2 are C or I/O behind the seam), models outside the pool harness/models.py, strings longer than the stated bound. "
              "XmlContext.get_subclasses(object) is stubbed to walk the model pool (which classes are loaded is environment).")
check(
    "C01",
    "Bounded, solver-decided at the binding layer: for each instance builder over the model pool (one or two value-symbolic focus fields - ints, strings of <= 2 arbitrary code points, bools - plus selectors into concrete pools) CrossHair executes the REAL EventGenerator, the real writer's Python half, the real handler's process_context and the real NodeParser/node classes and proves parse(serialize(obj)) == obj (and that the SAX stream is namespace-well-formed) over all values, per configuration partition (writer x handler x user prefix map x indent x ignore_default_attributes). A partition counts only if its path tree was exhausted and its reachability twin reached. Counterexamples are replayed concretely and through XmlSerializer.render/XmlParser.from_string.",
    _SEAM_NOTE,
    "symbolic execution (CrossHair+z3) of the real serializer and parser joined at the SAX seam; selectors for models/configurations expanded into partitions",
    "DESIGN.md §3.5, §5 C01",
)
check(
    "C03",
    "Bounded, solver-decided: same builders and symbolic values as C01, both writers' Python halves; oracle 1 is a namespace monitor on the recorded SAX stream (balanced mappings, reserved prefixes, in-scope prefixes for element/attribute/xsi:type names, emulation of XMLGenerator's uri->prefix table); oracle 2 is a differential against an independent reading of the class/field metadata (harness/refser.py, written from the documentation) for 21 builders: names, namespaces, nesting, order, xsi:nil/xsi:type and text must be equal. Only SerializerError/XmlWriterError may escape.",
    _SEAM_NOTE + " Oracle 2 does not cover compound fields, wildcards, unions, QName values and formats (monitor only).",
    "symbolic execution (CrossHair+z3) of the real serializer; SAX-stream namespace monitor; differential against an independent reference serializer",
    "DESIGN.md §5 C03",
)
check(
    "C08",
    "Bounded, solver-decided: on one symbolic object the Python halves of XmlEventWriter, LxmlEventWriter and LxmlTreeBuilder must emit infoset-equal SAX streams (or fail alike), and on one symbolic event stream XmlEventHandler (with merge_parent_namespaces) and LxmlEventHandler must build equal objects (or fail alike); iterwalk (pure Python) is compared with the iterparse-contract stream. Same builders, values and partitions as C01. In addition (selector driven, concrete runs through the real lxml/expat front ends): every pool document supplied as bytes, str, path, binary/text file object, lxml tree/element and ElementTree tree/element to both handlers must build the object its bytes build.",
    _SEAM_NOTE + " What the C libraries do on the writing side (escaping, encodings) is outside; the source-kind driver executes the C parsers, it does not model them.",
    "symbolic execution (CrossHair+z3) of both writers' and both handlers' Python halves on the same symbolic input, differential comparison",
    "DESIGN.md §5 C08",
)
check(
    "C04",
    "Bounded, solver-decided at the dictionary level: for the same instance builders as C01 (minus untyped-primitive models, which the property excludes) CrossHair executes the real DictEncoder.encode and DictDecoder.decode and proves decode(encode(obj)) == obj and that the encoded form contains only JSON-native values, for the default and the None-filtering factory and for object and list documents; focus values (ints, strings of <= 2 arbitrary code points, bools) are symbolic, the rest are selectors.",
    "Trusted: z3, CrossHair, chmodels. Outside: json.dump/json.load themselves (C; contract: identity on JSON-native values, which the check asserts of the encoded form), models outside the pool. XmlContext.get_subclasses(object) is stubbed to walk the model pool.",
    "symbolic execution (CrossHair+z3) of the real dictionary encoder and decoder over symbolic instances",
    "DESIGN.md §5 C04",
)
check(
    "C10",
    "Bounded, solver-decided: on valid event streams of pool documents CrossHair injects an unknown element (any child slot of any complex element, three subtree shapes, six names incl. names that are fields elsewhere) or an unknown attribute (plain, namespaced, xsi:*) with symbolic text, or replaces an int value by a symbolic non-numeric string, and runs the real handler/NodeParser/ElementNode/SkipNode/ParserUtils under each of the 8 fail_on_* combinations (partitions): lenient => object equal to the untouched parse and no exception; strict => exactly ParserError; unknown attributes fail iff enabled and not xsi; a bad value is kept verbatim with a ConverterWarning or fails iff conversion warnings are configured to fail. Same for DictDecoder with unknown keys at every key path.",
    _SEAM_NOTE + " warnings.warn is modelled (records the category, no message formatting).",
    "symbolic execution (CrossHair+z3) of the real parser on symbolically mutated event streams; selectors for position/shape/name/options",
    "DESIGN.md §5 C10",
)
check(
    "C15",
    "Bounded, solver-decided: every single-point fault of 12 kinds (delete, duplicate, retag, swap, inject child, corrupt text/attribute, delete/add attribute, bad xsi:type, bad xsi:nil, undeclared QName prefix) at every node of valid pool documents, with symbolic corrupt strings, is pushed through the real handlers and NodeParser; the call must return an instance of the requested class or raise ParserError/ConverterError/XmlContextError and nothing else. Dictionaries: 8 fault kinds at every key path through the real DictDecoder. The SyntaxError->ParserError wrapper of NodeParser.parse is driven by a stub handler. Text level (selector driven, concrete runs through the real lxml/expat front ends): truncation at every byte offset, every byte replaced by each of 8 bytes, 9 kinds of junk after the root element, for both handlers; instance or documented error only, and the native handler must not return an instance when expat driven directly rejects the bytes.",
    _SEAM_NOTE + " Random byte strings and multi-point faults are outside; the text-level driver executes the C parsers (the solver only enumerates offsets); termination is implied only by path exhaustion under a per-path timeout.",
    "symbolic execution (CrossHair+z3) of the real parser/decoder over solver-chosen fault placements and symbolic corrupt values",
    "DESIGN.md §5 C15",
)
check(
    "C09",
    "Bounded, solver-decided: valid event streams of pool documents are rewritten by a symbolic composition of meaning-preserving rewrites - prefix renaming through four naming schemes (incl. reusing ns0/ns1/xsi for other URIs) applied consistently inside xsi:type and QName-typed values, root namespace moved to the default namespace, reversed attribute order, symbolic white-space-only text/tails in element-only content, symbolic white space around non-string values, redundant redeclarations on a selector-chosen descendant - and parsed with both real handlers; the object must equal the parse of the original stream. get_base_url is checked against its documented rule. Text level (selector driven, concrete runs through the real lxml/expat front ends): a comment or a processing instruction at every character-data / between-tags position (symbolic position), every literal character replaced by a character reference, every text run wrapped in CDATA, white space inside every tag, quote style, five encodings; the outcome must equal that of the unrewritten document for both handlers.",
    _SEAM_NOTE + " XInclude loading is outside; text-level rewrites are applied one at a time and execute the C parsers (the solver only enumerates positions).",
    "symbolic execution (CrossHair+z3) of the real handlers/parser over symbolically rewritten event streams",
    "DESIGN.md §5 C09",
)
check(
    "C11",
    "Bounded, solver-decided: generic trees (depth <= 2, fan-out <= 2, names from a 4-name pool, symbolic text / tail / attribute values) are parsed by the real TreeParser (both handlers; must equal what a ##any wildcard field captures) and, placed under single / list / mixed wildcard fields, parsed and re-serialized through the real WildcardNode / ElementNode / EventGenerator code: the re-serialized infoset must equal the input tree. Wildcard namespace modes (##any, ##other, ##local, ##targetNamespace, uri, list) are checked end to end against the documented rule.",
    _SEAM_NOTE + " White-space-only text next to child elements is excepted by the property.",
    "symbolic execution (CrossHair+z3) of the real generic-element parser and serializer over solver-chosen tree shapes and symbolic text",
    "DESIGN.md §5 C11",
)
check(
    "C14",
    "Bounded-exhaustive, solver-driven: every history of <= 3 operations (quick: third operation from 16 state-observing ones; thorough <= 4) over a pool of 36 (serialize / parse / encode / decode, succeeding and failing, over models that share classes, xsi:type lookups, lookups without a target class, wildcard namespace memos under different wildcard modes, QName-valued enums under different prefix bindings, compound primitive choices, user prefix maps, and one ENVIRONMENT step: a module defining a second class for an already resolved qualified name is imported) is applied to one shared XmlContext / NodeParser / EventGenerator / DictEncoder / DictDecoder; each call's outcome is compared with the same call on fresh instances in the same interpreter and with the same call run alone in a pristine interpreter (one subprocess per operation). Every history runs in a forked child so that process-wide state cannot leak between histories. The history is a vector of symbolic selectors: CrossHair/z3 enumerate and prune it, nothing is value-symbolic (said so in the evidence).",
    _SEAM_NOTE + " Longer histories are outside the bound.",
    "solver-driven bounded-exhaustive enumeration of operation histories against the real code (selectors only)",
    "DESIGN.md §5 C14",
)
check(
    "C18",
    "Bounded-exhaustive, solver-driven (the weakest level in this design, stated as such): a finite pool of ~57 instances covering every value kind the property lists (non-finite floats, -0.0, Decimals, QNames with quotes, bytes, date/time types, tuples/sets/nested collections, attribute maps, hostile strings, nested and inner classes, an enum nested in a class, generics) x 3 variable names; the pool index is a symbolic selector that CrossHair/z3 enumerate, each path renders with the real PycodeSerializer, compiles and executes the source in a fresh namespace and compares the bound variable with the original (NaN-, sign- and container-type-aware). Nothing is value-symbolic because compile() is a C boundary.",
    "Trusted: CPython's compile/exec. Outside: instances not in the pool.",
    "solver-driven exhaustive enumeration of a finite instance pool; real render + exec per path",
    "DESIGN.md §5 C18",
)
check(
    "C19",
    "Bounded-exhaustive, solver-driven over schedules: the real XmlContext methods (build, fetch, find_type(s), build_xsi_cache, find_subclass, find_type_by_fields, local_names_match) and XmlVar.match_namespace are lowered at check time from their CURRENT source into generators that yield before every statement touching cache / xsi_cache / sys_modules / namespace_matches; two operations from a pool of 10 run on one shared cold context under a schedule given by symbolic integers (starting thread + step indices of <= 2 preemptions in the quick tier, <= 3 thorough); every schedule in the bound is executed and each operation's result must equal its solo result. A counterexample is replayed with the UNLOWERED methods on real threading.Threads under a sys.settrace-forced schedule before it is reported. Second driver (fullcall): two real threads share one cold XmlContext and one XmlParser/JsonParser/TreeParser/XmlSerializer/JsonSerializer instance; thread A's complete parse/render call is suspended at its k-th line event inside the xsdata package (k a symbolic integer over every line boundary of the call), thread B runs one complete call, A resumes; both results must equal the solo results (quick 5x4 operation pairs + 3 XInclude file-route pairs, thorough additionally 102x2).",
    "Trusted: the lowering (sched/__init__.py; a lowering artefact does not replay on real threads and is reported as a harness error), the GIL's statement-level atomicity assumption. Outside: preemption inside a bytecode-level operation, more than 2 threads, more preemptions, whole parse/serialize calls with more than one suspension, from_path/XInclude file routes. XmlContext.get_subclasses(object) walks a pool of model classes.",
    "coroutine lowering of the real methods + solver-enumerated preemption schedules; forced-schedule replay on real threads",
    "DESIGN.md §3.3, §5 C19",
)
check(
    "C07",
    "NAMES AND REFERENCES ONLY - the larger half of the property (files written, modules import, classes instantiate) is NOT decided: rendering needs jinja2, which is absent. Decided, bounded-exhaustive and solver-driven (selectors): (1) every name of <= 3 symbols over a 14-symbol hostile alphabet, under every NameCase and two safe-prefix sets, renders through the real Filters.class_name/field_name/constant_name/module_name/package_name to a valid non-reserved identifier and safe_name terminates; (2) hostile name triples are placed as JSON keys (DictMapper) and as NCName-legal element/attribute/type/enumeration names of a tiny XSD (SchemaParser+SchemaMapper), the REAL ClassContainer.process() runs for every structure style x compound x unnest partition, and then no two fields of a class and no two classes of a module share a rendered name, every type reference resolves, DependenciesResolver orders every module, and only CodegenError escapes; (3) sets of three schemas in three namespaces / files with same-named, case-colliding and reserved type names (import aliases) and all 64 reference graphs on three types (cluster designation) go through the same pipeline, and an independent reading of Python module scoping decides that per module every import (alias or name) and class is bound once, every reference (attribute types, compound choice types, extensions) rendered as class_name(alias or name) is bound to the class it means, and no compound field has two choices binding the same python type.",
    "Trusted: import-time shims for click/jinja2/toposort (analysis half only). Outside: everything that needs rendering; DTD/WSDL/XML-sample sources; names outside the pools.",
    "solver-driven bounded-exhaustive enumeration (selectors) of hostile names through the real naming kernel and the real analysis pipeline",
    "DESIGN.md §5 C07",
)
check(
    "C12",
    "ORDERING KERNELS, REPEATED RUNS AND THE CONFIG LAYER - byte-identical FILES are not decided (no renderer) and the click layer is absent. Decided, bounded-exhaustive and solver-driven: the hash seed is turned into a choice - `set` in the globals of 12 codegen modules is a subclass whose iteration order is a permutation picked by 4 symbolic integers (sets of ints keep CPython's seed-independent order), and every id() call in xsdata (11 modules) returns distinct integers ordered by the same picks; for every dependency graph on 3 complex types (6 edge booleans; union-typed attribute; nested sequence/choice groups) rendered as an XSD and pushed through the REAL SchemaParser -> SchemaMapper -> ClassContainer.process -> DependenciesResolver, the package/module designation, class order, import order, attribute type priority and emitted restrictions (incl. renumbered sequence ids) must equal those under the identity permutation, per structure style (also with compound fields and unnest_classes, a repeating sequence holding a choice, anonymous types nested three deep, and sets of three schemas in three namespaces whose same-named classes need import aliases). Repeated runs: every history of 3 calls of the real ResourceTransformer.process over 3 schema files with the on-disk cache on/off must produce what an uncached fresh run produces. Config routes: for every pair of 9 generator options, a project file (GeneratorConfig.write -> read) with command-line flag values (falsy ones included) laid over it exactly as cli.generate does must equal the same options set through the API.",
    "Trusted: shims for click/jinja2/toposort; the assumption that C-level consumers of a set subclass bypass __iter__ only where order cannot matter. Outside: set literals/comprehensions, more than 4 independent picks, everything after the analysis half (rendering), click's option parsing, a cached source whose content changes.",
    "solver-driven bounded-exhaustive enumeration of set-iteration permutations and dependency graphs through the real analysis pipeline",
    "DESIGN.md §5 C12",
)
for _p, _r in {
    "C07": "check not built yet", "C08": "check not built yet", "C09": "check not built yet", "C10": "check not built yet",
    "C11": "check not built yet", "C12": "check not built yet", "C14": "check not built yet", "C15": "check not built yet",
    "C18": "check not built yet", "C19": "check not built yet",
    "C02": "needs rendered generated classes for every schema: jinja2 is absent and a value-symbolic schema -> Class graph -> document pipeline is beyond CrossHair and a hand translation (DESIGN.md §6)",
    "C13": "same generation pipeline with sample documents as the program; only its lexical kernel (converter.test strict) is decidable here and that is covered under C05 (DESIGN.md §6)",
    "C16": "needs lxml's DTD object model (C) in front of the same undecidable-here generation pipeline (DESIGN.md §6)",
    "C17": "needs code generation plus the requests-based client (requests absent); whole-program over a symbolic WSDL definition (DESIGN.md §6)",
}.items():
    NA[_p] = _r
