check(
    "C06",
    "Bounded, solver-decided: (A) CrossHair executes the real DateTimeParser/from_string/__str__/XmlPeriod/XmlDuration code on lexical shapes whose every digit is a z3 variable and on values whose every component is a z3 integer; a harness counts only if its path tree was exhausted and its reachability twin reached. (B) validate_date/validate_time/monthlen and the comparison operators of XmlDateTime/XmlTime are translated from their current source to z3 (pyz3) and proved equivalent to an independent calendar predicate (all integers) and to an independent integer timeline key (|year| <= 9999). Not a proof: shapes, digit counts and year ranges are bounded as listed in the evidence.",
    "Trusted: z3, CrossHair's symbolic execution and string model, the /verif/chmodels integer<->string models (validated against CPython on a boundary grid each run), the pyz3 translator (validated by replaying every model on the real code). Outside: years > 6 digits, offsets beyond +-14:00, BCE Feb 29, mixed offset presence, duration fractional-second values.",
    "symbolic execution (CrossHair+z3) of the real parser/formatter over all digit fillings of enumerated lexical shapes; AST->z3 translation of calendar and comparison kernels, unsat = holds",
    "DESIGN.md §5 C06",
)
check(
    "C05",
    "Bounded, solver-decided: CrossHair executes the real converters (bool/int/bytes/QName/enum/float serialisation, ConverterFactory.deserialize/sort_types/test) on strings whose characters or digits are z3 variables and on symbolic ints/bytes; DataType int inference is translated to z3 (pyz3) and proved for all integers. QName/enum/candidate-list drivers are selector-driven (finite pools enumerated by the solver's forking) and say so in the evidence; float/Decimal C functions run only on a concrete edge pool.",
    "Trusted: z3, CrossHair, the chmodels integer<->string models, pure-Python models of binascii/base64 (validated against the C functions at import), the symbolic repr(float) grammar stub. Outside: float()/repr(float)/Decimal internals, strptime formats, strings accepted beyond the XSD lexical space.",
    "symbolic execution (CrossHair+z3) of the real converter code over all strings/digit fillings within length bounds; AST->z3 proof for integer datatype inference",
    "DESIGN.md §5 C05",
)
for _p, _r in {
    "C01": "check not built yet", "C03": "check not built yet", "C04": "check not built yet",
    "C07": "check not built yet", "C08": "check not built yet", "C09": "check not built yet", "C10": "check not built yet",
    "C11": "check not built yet", "C12": "check not built yet", "C14": "check not built yet", "C15": "check not built yet",
    "C18": "check not built yet", "C19": "check not built yet",
    "C02": "needs rendered generated classes for every schema: jinja2 is absent and a value-symbolic schema -> Class graph -> document pipeline is beyond CrossHair and a hand translation (DESIGN.md §6)",
    "C13": "same generation pipeline with sample documents as the program; only its lexical kernel (converter.test strict) is decidable here and that is covered under C05 (DESIGN.md §6)",
    "C16": "needs lxml's DTD object model (C) in front of the same undecidable-here generation pipeline (DESIGN.md §6)",
    "C17": "needs code generation plus the requests-based client (requests absent); whole-program over a symbolic WSDL definition (DESIGN.md §6)",
}.items():
    NA[_p] = _r
