"""Regenerate MANIFEST.json from the table below (kept in one place so it stays valid)."""
import json
import os

VERIF = os.path.dirname(os.path.dirname(os.path.abspath(__file__)))

CHECKS = {}
NA = {}


def check(pid, text, note, technique, design_ref):
    CHECKS[pid] = {
        "property_id": pid,
        "quick_cmd": f"bin/check {pid} --tier quick",
        "thorough_cmd": f"bin/check {pid} --tier thorough",
        "evidence_file": f"/verif/evidence/{pid}.json",
        "replay_cmd_template": f"bin/check {pid} --replay {{path}}",
        "engine": "xsv-solver",
        "level_claimed": {"category": "model_checking", "text": text, "design_ref": design_ref},
        "level_note": note,
        "technique": technique,
    }


exec(open(os.path.join(VERIF, "vlib", "manifest_table.py")).read())

manifest = {
    "version": 1,
    "setup_cmd": "bin/setup.sh",
    "hooks": {
        "guard": "XSDATA_VERIF",
        "enable": "no source hooks are needed: checks patch through CrossHair registrations, module-global injection and sys.settrace inside /verif; the guard name is reserved and unused",
        "baseline_off_cmd": "cd /repo && /venv/bin/python -m pytest -ra -q -p no:cacheprovider --timeout=900 --continue-on-collection-errors",
        "source_commits": [],
        "add_only": True,
    },
    "engines": [
        {"name": "xsv-solver", "path": "/verif/vlib/runner.py", "serves_properties": sorted(CHECKS),
         "kind_free_text": "CrossHair 0.0.110 (symbolic execution of the real xsdata modules with z3, plus the /verif/chmodels model pack) and pyz3 (/verif/pyz3: AST->z3 translation of loop-free integer kernels regenerated from /repo's current source on every run); counterexamples are replayed on the real code by a plain interpreter before a VIOLATION is printed"},
    ],
    "checks": [CHECKS[k] for k in sorted(CHECKS)],
    "not_applicable": [{"property_id": k, "reason": NA[k]} for k in sorted(NA) if k not in CHECKS],
    "notes": "Solver-based checking of the real code; every verdict is bounded (see DESIGN.md). Exit 3 is reserved for harness errors (a counterexample that does not replay, an unreachable assertion).",
}
with open(os.path.join(VERIF, "MANIFEST.json"), "w") as f:
    json.dump(manifest, f, indent=1)
print("MANIFEST.json:", len(CHECKS), "checks,", len(NA), "not applicable")
