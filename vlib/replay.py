"""Concrete replay of a driver: plain interpreter, no CrossHair tracing, no model pack.

stdin: {"module","fn","part","args","kwargs"}; prints XSVREPLAY {"reproduced": bool, "outcome": str}.
A driver reproduces a violation if it returns a falsy value or raises.
"""
import importlib
import json
import os
import sys
import traceback

VERIF = os.path.dirname(os.path.dirname(os.path.abspath(__file__)))
SRC = os.environ.get("XSDATA_SRC", "/repo")
sys.path.insert(0, VERIF)
sys.path.insert(0, SRC)

req = json.load(sys.stdin)
os.environ["XSV_PART"] = json.dumps(req.get("part", {}))
os.environ["XSV_TWIN"] = "0"
os.environ["XSV_REPLAY"] = "1"
from vlib import shims  # noqa: E402

shims.install()
out = {}
try:
    mod = importlib.import_module(req["module"])
    fn = getattr(mod, req["fn"])
    pre = getattr(mod, "PRE", {}).get(req["fn"])
    if pre is not None and not pre(*req["args"], **req.get("kwargs", {})):
        out = {"reproduced": False, "outcome": "precondition false on these arguments"}
    else:
        ret = fn(*req["args"], **req.get("kwargs", {}))
        out = {"reproduced": not ret, "outcome": "returned %r" % (ret,)}
        explain = getattr(mod, "EXPLAIN", {}).get(req["fn"])
        if explain is not None:
            try:
                out["explain"] = explain(*req["args"], **req.get("kwargs", {}))
            except Exception as e:  # noqa: BLE001
                out["explain"] = "explain failed: %r" % (e,)
except Exception as e:  # noqa: BLE001
    out = {"reproduced": True, "outcome": "raised %s: %s" % (type(e).__name__, e), "traceback": traceback.format_exc()[-1500:]}
print("XSVREPLAY " + json.dumps(out, default=str))
