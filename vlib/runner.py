"""Runner for the solver-based checks (DESIGN.md §3.4).

    runner.py <PROPERTY> [--tier quick|thorough] [--replay <file>] [--only <substr>] [--jobs N]

Exit codes: 0 = no violation on everything explored (inconclusive harnesses are listed in the
evidence, never counted as held); 1 = a counterexample was produced by the solver AND reproduced
by a plain concrete run of the real code (prints ``VIOLATION property=<id> replay=<path>``);
3 = harness error (a model/stub is wrong: counterexample did not replay, a reachability twin was
not reached, a precondition is unsatisfiable).
"""

from __future__ import annotations

import argparse
import concurrent.futures as cf
import hashlib
import importlib
import inspect
import json
import os
import re
import subprocess
import sys
import time

VERIF = os.path.dirname(os.path.dirname(os.path.abspath(__file__)))
SRC = os.environ.get("XSDATA_SRC", "/repo")
PY = os.path.join(VERIF, ".venv", "bin", "python")
sys.path.insert(0, VERIF)
sys.path.insert(0, SRC)

HARNESS_ERROR = 3


from vlib.jobs import Job  # noqa: E402


import threading  # noqa: E402

_ABORT = threading.Event()
_BUDGET = [0.0]
_DEADLINE = [0.0]  # thorough tier: jobs not STARTED by then are reported as not run (inconclusive), see main()
_PROCS = set()


def _run_worker(module, job, twin):
    env = dict(os.environ)
    env["XSV_TWIN"] = "1" if twin else "0"
    env["XSDATA_SRC"] = SRC
    env["PYTHONHASHSEED"] = "0"
    if _DEADLINE[0] and _BUDGET[0] > 0:
        job.timeout = min(job.timeout, max(300, int(_BUDGET[0])))  # under a budget no single job may outlast the tier
    if job.kind == "ch":
        tcond = min(job.timeout, 60) if twin else job.timeout
        cmd = [PY, os.path.join(VERIF, "vlib", "chworker.py"), module, job.fn, json.dumps(job.part), str(tcond), str(job.path_timeout)]
        hard = tcond * 1.5 + 60
    else:
        cmd = [PY, os.path.join(VERIF, "vlib", "z3worker.py"), module, job.fn, json.dumps(job.part), str(job.timeout)]
        hard = job.timeout * 1.5 + 60
    t0 = time.time()
    if _DEADLINE[0] and t0 > _DEADLINE[0]:
        out = {"status": "UNKNOWN", "error": "not run: the wall-clock budget of this tier was used up", "detail": "not run (budget)", "messages": []}
        out["wall_s"], out["twin"], out["key"] = 0.0, twin, job.key
        return out
    if _ABORT.is_set():
        out = {"status": "UNKNOWN", "error": "skipped (fail-fast)", "messages": []}
        out["wall_s"], out["twin"], out["key"] = 0.0, twin, job.key
        return out
    proc = subprocess.Popen(cmd, stdout=subprocess.PIPE, stderr=subprocess.PIPE, text=True, env=env, cwd=VERIF)
    _PROCS.add(proc)
    try:
        stdout, stderr = proc.communicate(timeout=hard)
        out = None
        for line in stdout.splitlines():
            if line.startswith("XSVRESULT "):
                out = json.loads(line[len("XSVRESULT "):])
        if out is None:
            if _ABORT.is_set():
                out = {"status": "UNKNOWN", "error": "killed (fail-fast)", "messages": []}
            else:
                out = {"status": "ERROR", "error": "no result line; rc=%s stderr=%s" % (proc.returncode, stderr[-1500:])}
    except subprocess.TimeoutExpired:
        proc.kill()
        proc.communicate()
        out = {"status": "UNKNOWN", "error": "hard timeout", "messages": []}
    finally:
        _PROCS.discard(proc)
    out["wall_s"] = round(time.time() - t0, 2)
    out["twin"] = twin
    out["key"] = job.key
    return out


_CALL_RE = re.compile(r"when calling (\w+)\((.*)\)\s*$", re.S)


def parse_counterexample(message):
    msg = message
    k = msg.rfind(" (which returns ")
    if k >= 0 and msg.rstrip().endswith(")"):
        msg = msg[:k]
    m = _CALL_RE.search(msg)
    if not m:
        return None
    argstr = m.group(2)
    try:
        a, k = eval("__cap__(" + argstr + ")", {"__cap__": lambda *a, **k: (a, k), "float": float, "nan": float("nan"), "inf": float("inf")})
    except Exception:
        return None
    return {"args": list(a), "kwargs": k}


def replay_concrete(module, fn, part, args, kwargs):
    """Run the driver on concrete arguments with a plain interpreter (no CrossHair, no models)."""
    env = dict(os.environ)
    env["XSV_TWIN"] = "0"
    env["XSDATA_SRC"] = SRC
    env["PYTHONHASHSEED"] = "0"  # the same hash seed as the workers: a counterexample that depends on set / dict order must replay
    payload = json.dumps({"module": module, "fn": fn, "part": part, "args": args, "kwargs": kwargs})
    p = subprocess.run([PY, os.path.join(VERIF, "vlib", "replay.py")], input=payload, capture_output=True, text=True, env=env, cwd=VERIF, timeout=600)
    for line in p.stdout.splitlines():
        if line.startswith("XSVREPLAY "):
            return json.loads(line[len("XSVREPLAY "):])
    return {"reproduced": None, "error": "replay produced no result: " + p.stderr[-1500:]}


def src_hash(obj):
    try:
        return hashlib.sha256(inspect.getsource(obj).encode()).hexdigest()[:12]
    except Exception:
        return "?"


def functions_encoded(names):
    out = []
    for qual in names:
        modname, _, attr = qual.partition(":")
        try:
            obj = importlib.import_module(modname)
            for part in attr.split("."):
                obj = getattr(obj, part)
            out.append(f"{modname}.{attr}@{src_hash(obj)}")
        except Exception as e:  # noqa: BLE001
            out.append(f"{modname}.{attr}@unresolved({type(e).__name__})")
    return out


def load_known(prop):
    with open(os.path.join(VERIF, "known_findings.json")) as f:
        data = json.load(f)
    return [e for e in data.get("findings", []) if e.get("property") == prop]


def _private_tmp():
    """Every scratch file of this run (documents for file routes, cache directories, pristine-run pickles) lives in ONE private directory that
    this process removes when it ends, also when workers are killed; leftovers of runs that were themselves killed are swept after 6 hours."""
    import atexit
    import glob
    import shutil
    import tempfile

    base = tempfile.gettempdir()
    for old in glob.glob(os.path.join(base, "xsv_run_*")):
        try:
            if time.time() - os.path.getmtime(old) > 6 * 3600:
                shutil.rmtree(old, True)
        except OSError:
            pass
    path = tempfile.mkdtemp(prefix="xsv_run_")
    atexit.register(shutil.rmtree, path, True)
    os.environ["TMPDIR"] = path
    tempfile.tempdir = path


def _replays(module, j, r):
    """fail-fast helper: does at least one counterexample of this refuted job reproduce concretely?"""
    try:
        if j.kind == "ch":
            cexs = [parse_counterexample(m["message"]) for m in r.get("messages", [])]
            cexs = [(c, j.fn) for c in cexs if c is not None]
        else:
            cexs = [({"args": c["args"], "kwargs": {}}, c.get("replay_fn") or j.fn) for c in r.get("counterexamples", [])]
        for c, fn in cexs:
            if replay_concrete(module, fn, j.part, c["args"], c.get("kwargs", {})).get("reproduced"):
                return True
    except Exception:  # noqa: BLE001
        return True
    return False


def main():
    ap = argparse.ArgumentParser()
    ap.add_argument("prop")
    ap.add_argument("--tier", default=os.environ.get("VERIF_TIER", "quick"))
    ap.add_argument("--replay")
    ap.add_argument("--only")
    ap.add_argument("--jobs", type=int, default=int(os.environ.get("XSV_JOBS", "16")))
    ap.add_argument("--no-evidence", action="store_true")
    ap.add_argument("--sample", type=int, default=0, help="sizing aid: run only every N-th job of the plan (implies --no-evidence; never used by registered commands)")
    ap.add_argument("--fail-fast", action="store_true", help="self-test mode: stop scheduling jobs after the first refuted one (never used by registered commands)")
    args = ap.parse_args()
    prop = args.prop.upper()
    tier = args.tier if args.tier in ("quick", "thorough") else "quick"
    _private_tmp()
    seed = int(os.environ.get("VERIF_SEED", "0") or 0)
    module = f"harness.{prop.lower()}"

    from vlib import shims

    shims.install()

    if args.replay:
        with open(args.replay) as f:
            rp = json.load(f)
        r = replay_concrete(rp["module"], rp["fn"], rp.get("part", {}), rp["args"], rp.get("kwargs", {}))
        print(json.dumps(r, indent=1))
        if r.get("reproduced"):
            print(f"VIOLATION property={prop} replay={args.replay}")
            return 1
        return 0

    t_start = time.time()
    mod = importlib.import_module(module)
    jobs = mod.plan(tier)
    if args.only:
        jobs = [j for j in jobs if args.only in j.key]
    if args.sample:
        jobs = jobs[:: args.sample]
        args.no_evidence = True
    if tier == "thorough":
        # the thorough plans are as deep as they could be made, not as deep as fits an afternoon: jobs are started in a seed-determined
        # shuffled order (so that a budget cut thins every partition evenly) and jobs not started within XSV_BUDGET_S (default 45 min) are
        # reported as inconclusive "not run (budget)"; XSV_BUDGET_S=0 removes the limit
        import random

        budget = float(os.environ.get("XSV_BUDGET_S", "2700"))
        random.Random(int(os.environ.get("VERIF_SEED", "1") or 1)).shuffle(jobs)
        if budget > 0:
            _BUDGET[0] = budget
            _DEADLINE[0] = time.time() + budget

    pending_errors = []
    results, twins = {}, {}
    def _validate():
        # model pack validation (translation validation of the stubs; not a deciding step)
        seam_users = ("C01", "C03", "C08", "C09", "C10", "C11", "C14", "C15")  # the seam corpus is validated only for checks that rely on the seam
        return subprocess.run([PY, os.path.join(VERIF, "vlib", "validate_models.py")], capture_output=True, text=True, cwd=VERIF,
                              env=dict(os.environ, XSDATA_SRC=SRC, XSV_SEAM="1" if prop in seam_users else "0"))

    with cf.ThreadPoolExecutor(max_workers=args.jobs) as ex:
        futs = {}
        mvf = ex.submit(_validate) if any(j.kind == "ch" for j in jobs) else None
        for j in jobs:
            futs[ex.submit(_run_worker, module, j, False)] = (j, False)
            if j.kind == "ch":
                futs[ex.submit(_run_worker, module, j, True)] = (j, True)
        stop = False
        for fut in cf.as_completed(futs):
            if fut.cancelled():
                continue
            j, twin = futs[fut]
            (twins if twin else results)[j.key] = fut.result()
            if args.fail_fast and not twin and not stop and results[j.key].get("status") in ("REFUTED", "SAT") and _replays(module, j, results[j.key]):
                # used by the seeded-change self test: the first refuted job WHOSE COUNTEREXAMPLE REPLAYS is enough, skip what has not started yet
                stop = True
                _ABORT.set()
                for other in futs:
                    other.cancel()
                for pr in list(_PROCS):
                    try:
                        pr.kill()
                    except Exception:  # noqa: BLE001
                        pass
        if args.fail_fast:
            done_keys = set(results)
            jobs = [j for j in jobs if j.key in done_keys]
            for j in jobs:
                if j.kind == "ch" and j.key not in twins:
                    twins[j.key] = {"status": "UNKNOWN", "messages": []}

    if mvf is not None:
        mv = mvf.result()
        model_validation = {"ok": mv.returncode == 0, "detail": (mv.stdout.strip().splitlines() or ["no output"])[-1]}
        if mv.returncode != 0:
            # not fatal by itself: a violation found below still takes precedence; otherwise the run ends as a harness error
            pending_errors.append("model pack / seam validation failed: " + (mv.stdout[-1500:] + mv.stderr[-500:]).replace("\n", " | "))
    else:
        model_validation = {"ok": True, "detail": "no CrossHair job in this plan"}
    known = load_known(prop)
    violations, harness_errors, inconclusive, confirmed = [], list(pending_errors), [], []
    samples, per_harness = [], []
    total_paths = total_queries = 0
    solver_seconds = 0.0
    os.makedirs(os.path.join(VERIF, "replays"), exist_ok=True)
    for j in jobs:
        r = results[j.key]
        tw = twins.get(j.key)
        total_paths += int(r.get("paths", 0))
        total_queries += int(r.get("queries", 0))
        solver_seconds += float(r.get("cpu_s", 0.0))
        entry = {"harness": j.key, "kind": j.kind, "status": r["status"], "paths": r.get("paths"), "queries": r.get("queries"), "cpu_s": r.get("cpu_s"), "wall_s": r.get("wall_s"), "timeout_s": j.timeout}
        if j.note:
            entry["note"] = j.note
        if r.get("detail"):
            entry["detail"] = r["detail"]
        if j.kind == "ch":
            # vacuity guard
            if tw["status"] == "REFUTED":
                cex = None
                for m in tw.get("messages", []):
                    cex = cex or parse_counterexample(m["message"])
                entry["twin"] = "reached"
                if cex is not None and len(samples) < 12:
                    samples.append({"harness": j.key, "reached_with": cex})
            elif tw["status"] == "CONFIRMED" or tw["status"] == "PRE_UNSAT":
                entry["twin"] = "NOT REACHED (%s)" % tw["status"]
                harness_errors.append(f"{j.key}: reachability twin not reached ({tw['status']}) - vacuous harness")
            else:
                entry["twin"] = "inconclusive (%s)" % tw["status"]
        if r["status"] == "CONFIRMED" or r["status"] == "UNSAT":
            if j.kind == "ch" and entry.get("twin") != "reached":
                inconclusive.append(j.key)
            else:
                confirmed.append(j.key)
                if j.kind == "z3" and r.get("sample") is not None and len(samples) < 16:
                    samples.append({"harness": j.key, "query": r.get("sample")})
        elif r["status"] in ("REFUTED", "SAT"):
            cexs = []
            if j.kind == "ch":
                for m in r.get("messages", []):
                    c = parse_counterexample(m["message"])
                    if c is not None:
                        cexs.append((c, m["message"]))
                if not cexs:
                    harness_errors.append(f"{j.key}: refuted but the counterexample could not be parsed: {r.get('messages')}")
            else:
                for c in r.get("counterexamples", []):
                    cexs.append(({"args": c["args"], "kwargs": {}, "replay_fn": c.get("replay_fn")}, c.get("message", "")))
            for c, msg in cexs:
                rfn = c.get("replay_fn") or j.fn
                rr = replay_concrete(module, rfn, j.part, c["args"], c.get("kwargs", {}))
                if rr.get("reproduced"):
                    name = hashlib.sha256(json.dumps([j.key, c["args"], c.get("kwargs", {})], sort_keys=True, default=str).encode()).hexdigest()[:10]
                    path = os.path.join(VERIF, "replays", f"{prop}_{name}.json")
                    with open(path, "w") as f:
                        json.dump({"property": prop, "module": module, "fn": rfn, "part": j.part, "args": c["args"], "kwargs": c.get("kwargs", {}), "solver_message": msg, "replay_outcome": rr}, f, indent=1)
                    violations.append({"harness": j.key, "replay": path, "message": msg, "outcome": rr.get("outcome")})
                    entry["counterexample"] = {"args": c["args"], "message": msg[:300], "replayed": True}
                else:
                    harness_errors.append(f"{j.key}: counterexample did NOT replay on the real code ({msg[:200]}) -> {rr}")
                    entry["counterexample"] = {"args": c["args"], "message": msg[:300], "replayed": False}
        elif r["status"] == "PRE_UNSAT":
            harness_errors.append(f"{j.key}: unable to meet precondition")
        elif r["status"] == "ERROR" and "CrossHairInternal" in str(r.get("error")):
            # an internal limitation of the engine on this harness: nothing was decided, which is what inconclusive means
            inconclusive.append(j.key)
            entry["error"] = r.get("error")
            entry["detail"] = "engine error (CrossHairInternal): inconclusive"
        elif r["status"] == "ERROR":
            harness_errors.append(f"{j.key}: worker error: {r.get('error')}")
            entry["error"] = r.get("error")
        else:
            inconclusive.append(j.key)
        per_harness.append(entry)

    # known findings: replay each listed witness on the current tree
    known_lines, known_repro = [], []
    for e in known:
        if e.get("status") != "known":
            continue
        w = e["witness"]
        rr = replay_concrete(w.get("module", module), w["fn"], w.get("part", {}), w["args"], w.get("kwargs", {}))
        if rr.get("reproduced"):
            known_lines.append(f"KNOWN-FINDING: property={prop} {e['id']}: {e['what']}")
            known_repro.append(e["id"])
        else:
            known_repro.append(e["id"] + " (no longer reproduces)")

    wall = round(time.time() - t_start, 2)
    meta = getattr(mod, "META", {})
    evidence = {
        "property_id": prop,
        "tier": tier,
        "seed": seed,
        "level": "model_checking",
        "coverage": {
            "evaluations": total_paths + total_queries,
            "distinct_nontrivial": len(confirmed),
            "rule": "one case = one solver obligation (a CrossHair contract over the real functions under one configuration partition, "
                    "or one z3 query of the AST->z3 translation); it counts as distinct and non-trivial only if its path tree was exhausted "
                    "with every branch decided by z3 (status CONFIRMED / unsat) AND its reachability twin (same preconditions and body, "
                    "postcondition False) was refuted, i.e. the assertion is reached. evaluations = symbolic paths executed + z3 queries.",
            "samples": samples or [{"note": "no twin sample parsed"}],
            "exhaustive": False,
            "paths_executed": total_paths,
            "z3_queries": total_queries,
            "harnesses_total": len(jobs),
            "harnesses_exhausted": len(confirmed),
            "inconclusive": inconclusive,
            "harness_errors": harness_errors,
            "per_harness": per_harness,
            "functions_encoded": functions_encoded(meta.get("functions", [])),
            "bounds": meta.get("bounds", []),
            "outside_claim": meta.get("outside", []),
            "stubs_and_models": meta.get("stubs", []) + [f"absent-package shim: {n}" for n in shims.USED],
            "solver_seconds": round(solver_seconds, 1),
            "model_validation": model_validation,
            "known_findings_reproduced": known_repro,
            "source_root": SRC,
        },
        "assumptions": meta.get("assumptions", []),
        "wall_s": wall,
        "violations": len(violations),
    }
    if not args.no_evidence and not args.only:
        os.makedirs(os.path.join(VERIF, "evidence"), exist_ok=True)
        with open(os.path.join(VERIF, "evidence", f"{prop}.json"), "w") as f:
            json.dump(evidence, f, indent=1, default=str)

    print(f"[{prop}/{tier}] harnesses={len(jobs)} exhausted={len(confirmed)} inconclusive={len(inconclusive)} "
          f"violations={len(violations)} harness_errors={len(harness_errors)} paths={total_paths} z3_queries={total_queries} wall={wall}s")
    for e in per_harness:
        print(f"  {e['status']:<10} {e['harness']:<60} paths={e.get('paths')} q={e.get('queries')} cpu={e.get('cpu_s')}s twin={e.get('twin','-')}")
    for line in known_lines:
        print(line)
    for he in harness_errors:
        print("HARNESS-ERROR:", he)
    if violations:
        for v in violations:
            print(f"  counterexample: {v['harness']}: {v['message'][:300]} -> {v.get('outcome')}")
            print(f"VIOLATION property={prop} replay={v['replay']}")
        return 1
    if harness_errors:
        return HARNESS_ERROR
    return 0


if __name__ == "__main__":
    sys.exit(main())
