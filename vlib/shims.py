"""Import-time stand-ins for packages that are absent from this sandbox (click, jinja2, toposort).

They are appended at the END of sys.path and only for packages that really are missing, so a
real installation always wins.
"""
import importlib.util
import os
import sys

SHIMS = os.path.join(os.path.dirname(os.path.dirname(os.path.abspath(__file__))), "shims")
USED = []


def install():
    missing = [n for n in ("click", "jinja2", "toposort") if importlib.util.find_spec(n) is None]
    if missing and SHIMS not in sys.path:
        sys.path.append(SHIMS)
    for n in missing:
        if n not in USED:
            USED.append(n)
    return USED
