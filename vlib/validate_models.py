"""Run the model-pack validation grid (harness/modelcheck.py) under CrossHair; exit 0 iff every grid is confirmed."""
import concurrent.futures as cf
import json
import os
import subprocess
import sys

VERIF = os.path.dirname(os.path.dirname(os.path.abspath(__file__)))
PY = os.path.join(VERIF, ".venv", "bin", "python")


def run(fn):
    p = subprocess.run([PY, os.path.join(VERIF, "vlib", "chworker.py"), "harness.modelcheck", fn, "{}", "240", "30"],
                       capture_output=True, text=True, cwd=VERIF, env=dict(os.environ, XSV_TWIN="0"))
    for line in p.stdout.splitlines():
        if line.startswith("XSVRESULT "):
            return json.loads(line[10:])
    return {"status": "ERROR", "error": p.stderr[-1000:]}


with cf.ThreadPoolExecutor(3) as ex:
    res = dict(zip(("fmt_grid", "str_grid", "int_grid"), ex.map(run, ("fmt_grid", "str_grid", "int_grid"))))
ok = all(r["status"] == "CONFIRMED" for r in res.values())
# SAX seam vs the real text path on the concrete corpus (plain interpreter)
SRC = os.environ.get("XSDATA_SRC", "/repo")
sp = subprocess.run([PY, "-c", "import sys; sys.path.insert(0, %r); sys.path.insert(0, %r); from harness import seamcheck; n, bad = seamcheck.run(); print('SEAM', n, len(bad)); [print('  MISMATCH', repr(b)[:600]) for b in bad[:3]]" % (VERIF, SRC)],
                    capture_output=True, text=True, cwd=VERIF)
seam_line = [ln for ln in sp.stdout.splitlines() if ln.startswith("SEAM")]
seam_ok = bool(seam_line) and seam_line[0].split()[2] == "0"
if os.environ.get("XSV_SEAM", "1") != "1":
    seam_ok = True  # this check does not rely on the seam: a mismatch there is not its business
if not seam_ok:
    print("seam validation failed:", sp.stdout[-1500:], sp.stderr[-1500:])
ok = ok and seam_ok
for k, r in res.items():
    if r["status"] != "CONFIRMED":
        print(k, json.dumps(r)[:1500])
print(("seam corpus: %s comparisons, %s mismatches; " % (seam_line[0].split()[1], seam_line[0].split()[2]) if seam_line else "seam corpus: not run; ") + "model pack grid: " + ", ".join(f"{k}={r['status']}/{r.get('paths')}paths/{r.get('cpu_s')}s" for k, r in res.items()))
sys.exit(0 if ok else 1)
