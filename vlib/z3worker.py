"""One engine-B job = one process: runs harness.<module>.<fn>(part, timeout) which builds z3 queries from the
current source (pyz3) and returns {"status": UNSAT|SAT|UNKNOWN|ERROR, "queries": n, "counterexamples": [...]}"""
import importlib
import json
import os
import sys
import time
import traceback

VERIF = os.path.dirname(os.path.dirname(os.path.abspath(__file__)))
SRC = os.environ.get("XSDATA_SRC", "/repo")
sys.path.insert(0, VERIF)
sys.path.insert(0, SRC)


def main():
    modname, fname, part_json, timeout = sys.argv[1:5]
    os.environ["XSV_PART"] = part_json
    t0 = time.process_time()
    out = {"module": modname, "function": fname, "partition": json.loads(part_json)}
    try:
        from vlib import shims

        shims.install()
        mod = importlib.import_module(modname)
        res = getattr(mod, fname)(json.loads(part_json), float(timeout))
        out.update(res)
    except BaseException as e:  # noqa: BLE001
        out["status"] = "ERROR"
        out["error"] = f"{type(e).__name__}: {e}"
        out["traceback"] = traceback.format_exc()[-3000:]
    out["cpu_s"] = round(time.process_time() - t0, 2)
    print("XSVRESULT " + json.dumps(out, default=str))


main()
